/-
FleetStore model: the time-weighted occupancy bookkeeping (`_update_time_averaged_level` in `_do_put` / `get`,
`Fleet.update_final_fleet_avg_content`) is the integral of the true occupancy (items waiting for the vehicle or
under way + delivered items), in every reachable state, kernel events included.

The integral is the ghost field `area` of the embedded BufferStore model: it is advanced only where the clock
moves (`setNow`), by the true level × the elapsed time.
-/
import FsVerif.Proofs.Fleet
namespace FsVerif
namespace BufStore

/-- what the occupancy statistics read -/
def bsig (s : BufStore) : Nat × List Item × List Item × Nat × Nat × Nat × Nat :=
  (s.now, s.gotLog, s.putLog, s.wsum, s.lastLevel, s.lastChange, s.area)

@[simp] theorem bsig_trigPut (s : BufStore) : s.trigPut.bsig = s.bsig := by simp [bsig]
@[simp] theorem bsig_trigGet (s : BufStore) : s.trigGet.bsig = s.bsig := by simp [bsig]

theorem bsig_reservePutP (s : BufStore) (p : Nat) (pr : Int) : (s.reservePutP p pr).1.bsig = s.bsig := by
  unfold reservePutP; simp only; rw [bsig_trigPut]; rfl

theorem bsig_reserveGetP (s : BufStore) (p : Nat) (pr : Int) : (s.reserveGetP p pr).1.bsig = s.bsig := by
  unfold reserveGetP; simp only; rw [bsig_trigGet]; rfl

theorem bsig_cancelPut (s : BufStore) (tid : Nat) : (s.cancelPut tid).1.bsig = s.bsig := by
  unfold cancelPut
  split
  · show (BufStore.trigPut _).bsig = s.bsig; rw [bsig_trigPut]; rfl
  · split
    · show (BufStore.trigPut _).bsig = s.bsig; rw [bsig_trigPut]; rfl
    · rfl

theorem bsig_cancelGet (s : BufStore) (tid : Nat) : (s.cancelGet tid).1.bsig = s.bsig := by
  unfold cancelGet
  repeat' split
  all_goals first
    | rfl
    | (show (BufStore.trigGet _).bsig = s.bsig; rw [bsig_trigGet]; rfl)

theorem bsig_put (s : BufStore) (p tid : Nat) (x : Item) (d : Nat) :
    ((s.put p tid x d).2 ≠ .ok ∧ (s.put p tid x d).1.bsig = s.bsig) ∨
    ((s.put p tid x d).2 = .ok ∧
     (s.put p tid x d).1.bsig = (s.now, s.gotLog, s.putLog ++ [x], s.wsum + s.lastLevel * (s.now - s.lastChange), s.level + 1, s.now, s.area)) := by
  unfold put
  split
  · exact Or.inl ⟨by simp, rfl⟩
  · split
    · exact Or.inl ⟨by simp, rfl⟩
    · split
      · refine Or.inr ⟨rfl, ?_⟩
        simp only [bsig_trigGet]
        simp only [bsig, updLevel, addItem, dropPutRes, level, List.length_append, List.length_cons, List.length_nil,
          Prod.mk.injEq, true_and, and_true]
        omega
      · exact Or.inl ⟨by simp, rfl⟩

theorem removeItem_length_any (l : List BEntry) (x : Item) (h : hasItem l x = true) :
    (removeItem l x).length + 1 = l.length := by
  unfold hasItem at h
  unfold removeItem
  split
  · rename_i i hi
    have hlt : i < l.length := by
      have := List.findIdx?_eq_some_iff_findIdx_eq.mp hi
      exact this.1
    rw [List.length_eraseIdx, if_pos hlt]; omega
  · rename_i hn
    rw [List.findIdx?_eq_none_iff] at hn
    rw [List.any_eq_true] at h
    obtain ⟨r, hr, hp⟩ := h
    have := hn r hr
    simp [hp] at this

theorem bsig_get (s : BufStore) (p tid : Nat) :
    (s.get p tid).1.bsig = s.bsig ∨
    ∃ x, 0 < s.ready.length ∧
      (s.get p tid).1.bsig = (s.now, s.gotLog ++ [x], s.putLog, s.wsum + s.lastLevel * (s.now - s.lastChange), s.level - 1, s.now, s.area) := by
  unfold get
  split
  · exact Or.inl rfl
  · split
    · exact Or.inl rfl
    · split
      · exact Or.inl rfl
      · split
        · exact Or.inl rfl
        · split
          · rename_i e _ hany
            have hl := removeItem_length_any s.ready e.item hany
            refine Or.inr ⟨e.item, by omega, ?_⟩
            simp only [bsig_trigPut]
            simp only [bsig, updLevel, takeEntry, unbind, level, Prod.mk.injEq, true_and, and_true]
            omega
          · exact Or.inl rfl

/-- the bookkeeping invariant -/
structure StatB (s : BufStore) : Prop where
  lvl : s.lastLevel + s.gotLog.length = s.putLog.length
  chg : s.lastChange ≤ s.now
  int : s.wsum + s.lastLevel * (s.now - s.lastChange) = s.area

theorem StatB.of_sig {s s' : BufStore} (h : StatB s) (e : s'.bsig = s.bsig) : StatB s' := by
  simp only [bsig, Prod.mk.injEq] at e
  obtain ⟨e1, e2, e3, e4, e5, e6, e7⟩ := e
  exact ⟨by rw [e5, e2, e3]; exact h.lvl, by rw [e6, e1]; exact h.chg, by rw [e4, e5, e1, e6, e7]; exact h.int⟩

theorem StatB.upd {s s' : BufStore} {l : Nat} {g en : List Item} (h : StatB s)
    (hl : l + g.length = en.length)
    (e : s'.bsig = (s.now, g, en, s.wsum + s.lastLevel * (s.now - s.lastChange), l, s.now, s.area)) : StatB s' := by
  simp only [bsig, Prod.mk.injEq] at e
  obtain ⟨e1, e2, e3, e4, e5, e6, e7⟩ := e
  refine ⟨by rw [e5, e2, e3]; exact hl, by rw [e6, e1]; exact Nat.le_refl _, ?_⟩
  rw [e4, e5, e1, e6, e7, Nat.sub_self, Nat.mul_zero, Nat.add_zero]; exact h.int

/-- conservation, read as a count -/
theorem Pre.count {s : BufStore} (h : Pre s) : s.level + s.gotLog.length = s.putLog.length := by
  have := h.cons.length_eq
  simp only [inside, List.length_append, List.length_map] at this
  simp only [BufStore.level]; omega

theorem StatB.setNow {s : BufStore} (h : StatB s) (hp : Pre s) (d : Nat) (hd : s.now ≤ d) : StatB (s.setNow d) := by
  have hlv : s.lastLevel = s.level := by have := hp.count; have := h.lvl; omega
  refine ⟨h.lvl, Nat.le_trans h.chg hd, ?_⟩
  simp only [BufStore.setNow]
  have hc := h.chg
  have : d - s.lastChange = (s.now - s.lastChange) + (d - s.now) := by omega
  rw [this, Nat.mul_add, ← h.int, hlv, Nat.add_assoc]

end BufStore

namespace FleetStore
open BufStore

theorem bsig_sched (s : FleetStore) (t : Nat) (u : Bool) (k : FKind) : (s.sched t u k).b.bsig = s.b.bsig := rfl

theorem bsig_enterLoop (s : FleetStore) : s.enterLoop.b.bsig = s.b.bsig := by
  unfold enterLoop
  simp only
  split <;> rfl

theorem bsig_body (s : FleetStore) : s.body.b.bsig = s.b.bsig := by
  unfold body
  simp only
  rw [bsig_enterLoop]
  repeat' split
  all_goals rfl

theorem bsig_moveOne (s : FleetStore) (e : BEntry) : (s.moveOne e).b.bsig = s.b.bsig := by
  unfold moveOne
  split
  · rfl
  · split
    · show (BufStore.trigPut _).bsig = s.b.bsig
      rw [bsig_trigPut, bsig_trigGet]; rfl
    · rfl

theorem bsig_arriveTrip (s : FleetStore) (m : Nat) : (s.arriveTrip m).b.bsig = s.b.bsig := by
  unfold arriveTrip
  split
  · rfl
  · rename_i t _
    have : ∀ (l : List BEntry) (s0 : FleetStore),
        (l.foldl (fun s e => if s.b.crashed then s else s.moveOne e) s0).b.bsig = s0.b.bsig := by
      intro l
      induction l with
      | nil => intro s0; rfl
      | cons e es ih =>
        intro s0
        simp only [List.foldl_cons]
        rw [ih]
        split
        · rfl
        · exact bsig_moveOne s0 e
    rw [this]

theorem bsig_handle (s : FleetStore) (k : FKind) : (s.handle k).b.bsig = s.b.bsig := by
  unfold handle
  cases k with
  | procInit => simp only; rw [bsig_enterLoop]
  | tmo g => simp only; split <;> rfl
  | act a => simp only; repeat' split
             all_goals rfl
  | cond g => simp only; split
              · exact bsig_body s
              · rfl
  | init m => rfl
  | tr1 m => rfl
  | tr2 m => exact bsig_arriveTrip s m

theorem bsig_trigger (s : FleetStore) : s.trigger.b.bsig = s.b.bsig := by
  unfold trigger
  split <;> rfl

/-- FleetStore.put: what the embedded store's put does to the statistics, nothing more -/
theorem bsig_fput (s : FleetStore) (p tid : Nat) (x : Item) :
    (s.put p tid x).1.b.bsig = s.b.bsig ∨
    (s.put p tid x).1.b.bsig = (s.b.now, s.b.gotLog, s.b.putLog ++ [x], s.b.wsum + s.b.lastLevel * (s.b.now - s.b.lastChange),
      s.b.level + 1, s.b.now, s.b.area) := by
  unfold FleetStore.put
  rcases BufStore.bsig_put s.b p tid x 0 with ⟨hne, he⟩ | ⟨heq, he⟩
  · left
    generalize s.b.put p tid x 0 = r at hne he
    obtain ⟨b1, res⟩ := r
    simp only at hne he ⊢
    cases res <;> first | exact absurd rfl hne | exact he
  · right
    generalize s.b.put p tid x 0 = r at heq he
    obtain ⟨b1, res⟩ := r
    simp only at heq he ⊢
    subst heq
    simp only
    rw [bsig_trigger]
    show ({ b1.trigGet with timers := [] } : BufStore).bsig = _
    have : ({ b1.trigGet with timers := [] } : BufStore).bsig = b1.trigGet.bsig := rfl
    rw [this, bsig_trigGet]; exact he

/-- the statistics invariant of the fleet's store -/
theorem statB_step {s : FleetStore} (hk : KT s) (h : StatB s.b) (op : Op) : StatB (s.step op).1.b := by
  have hp : Pre s.b := hk.core.toPre
  have hcnt := hp.count
  have hlv : s.b.lastLevel = s.b.level := by have := h.lvl; omega
  have h' : StatB ({ s.b with fired := [] } : BufStore) := h.of_sig rfl
  unfold FleetStore.step
  cases op with
  | reservePut p => exact h'.of_sig (by simp only [liftB]; rw [bsig_reservePutP])
  | reserveGet p => exact h'.of_sig (by simp only [liftB]; rw [bsig_reserveGetP])
  | reservePutP p pr => exact h'.of_sig (by simp only [liftB]; rw [bsig_reservePutP])
  | reserveGetP p pr => exact h'.of_sig (by simp only [liftB]; rw [bsig_reserveGetP])
  | cancelPut t => exact h'.of_sig (by simp only [liftB]; rw [bsig_cancelPut])
  | cancelGet t => exact h'.of_sig (by simp only [liftB]; rw [bsig_cancelGet])
  | put p t x =>
    simp only
    rcases bsig_fput { s with b := { s.b with fired := [] }, newReady := [] } p t x with e | e
    · exact h'.of_sig e
    · have hh : s.b.level + 1 + s.b.gotLog.length = (s.b.putLog ++ [x]).length := by
        rw [List.length_append]; simp only [List.length_cons, List.length_nil]; omega
      exact h'.upd (l := s.b.level + 1) hh e
  | get p t =>
    simp only [liftB]
    rcases bsig_get ({ s.b with fired := [] } : BufStore) p t with e | ⟨x, hpos, e⟩
    · exact h'.of_sig e
    · have hh : s.b.level - 1 + (s.b.gotLog ++ [x]).length = s.b.putLog.length := by
        have : 0 < s.b.level := by simp only [BufStore.level]; exact Nat.lt_of_lt_of_le hpos (Nat.le_add_left _ _)
        rw [List.length_append]; simp only [List.length_cons, List.length_nil]; omega
      exact h'.upd (l := s.b.level - 1) hh e
  | adv dt =>
    simp only [FleetStore.adv]
    have hp' : Pre ({ s.b with fired := [] } : BufStore) := (BufStore.clearFired_core hk.core).toPre
    have go : StatB (({ s.b with fired := [] } : BufStore).setNow (s.now + dt)) := h'.setNow hp' _ (Nat.le_add_right _ _)
    split
    · split
      · exact h'
      · exact go
    · exact go
  | ev =>
    simp only [FleetStore.ev]
    split
    · exact h'
    · rename_i e q _
      have hp' : Pre ({ s.b with fired := [] } : BufStore) := (BufStore.clearFired_core hk.core).toPre
      have go : StatB (({ s.b with fired := [] } : BufStore).setNow (max s.now e.time)) := h'.setNow hp' _ (Nat.le_max_left _ _)
      exact go.of_sig (bsig_handle _ _)
  | final =>
    refine h'.upd (l := s.b.level) hcnt ?_
    simp [BufStore.final, bsig, updLevel, BufStore.level]


/-- simulated time never decreases in the fleet model, whatever the operation or kernel event -/
theorem step_now_mono (s : FleetStore) (op : Op) : s.now ≤ (s.step op).1.now := by
  have key : ∀ {b' : BufStore}, b'.bsig = ({ s.b with fired := [] } : BufStore).bsig → s.b.now ≤ b'.now := by
    intro b' e
    simp only [bsig, Prod.mk.injEq] at e
    rw [e.1]; exact Nat.le_refl _
  unfold FleetStore.step FleetStore.now
  cases op with
  | reservePut p => exact key (by simp only [liftB]; rw [bsig_reservePutP])
  | reserveGet p => exact key (by simp only [liftB]; rw [bsig_reserveGetP])
  | reservePutP p pr => exact key (by simp only [liftB]; rw [bsig_reservePutP])
  | reserveGetP p pr => exact key (by simp only [liftB]; rw [bsig_reserveGetP])
  | cancelPut t => exact key (by simp only [liftB]; rw [bsig_cancelPut])
  | cancelGet t => exact key (by simp only [liftB]; rw [bsig_cancelGet])
  | put p t x =>
    simp only
    rcases bsig_fput { s with b := { s.b with fired := [] }, newReady := [] } p t x with e | e
    · exact key e
    · simp only [bsig, Prod.mk.injEq] at e; rw [e.1]; exact Nat.le_refl _
  | get p t =>
    simp only [liftB]
    rcases bsig_get ({ s.b with fired := [] } : BufStore) p t with e | ⟨x, _, e⟩
    · exact key e
    · simp only [bsig, Prod.mk.injEq] at e; rw [e.1]; exact Nat.le_refl _
  | adv dt =>
    simp only [FleetStore.adv]
    split
    · split
      · exact Nat.le_refl _
      · exact Nat.le_add_right _ _
    · exact Nat.le_add_right _ _
  | ev =>
    simp only [FleetStore.ev]
    split
    · exact Nat.le_refl _
    · rename_i e q _
      have hgen : ∀ (x : FleetStore) (k : FKind), x.b.now ≤ (x.handle k).b.now := by
        intro x k
        have h := bsig_handle x k
        simp only [bsig, Prod.mk.injEq] at h
        rw [h.1]; exact Nat.le_refl _
      refine Nat.le_trans ?_ (hgen _ _)
      exact Nat.le_max_left _ _
  | final => exact Nat.le_refl _

theorem run_now_mono (ops : List Op) : ∀ s : FleetStore, s.now ≤ (s.run ops).now := by
  induction ops with
  | nil => intro s; exact Nat.le_refl _
  | cons op ops ih => intro s; exact Nat.le_trans (step_now_mono s op) (ih _)

theorem init_statB (cfg : FleetCfg) : StatB (init cfg).b := ⟨rfl, Nat.le_refl _, rfl⟩

theorem reachD_statB {s : FleetStore} (h : ReachD s) : StatB s.b := by
  induction h with
  | init cfg => exact init_statB cfg
  | step op hr _ ih => exact statB_step (reachD_kt hr) ih op

end FleetStore
end FsVerif
