/-
Continuous conveyor model: the time-weighted occupancy bookkeeping is the integral of the true occupancy
(same construction as Proofs/SlotStat.lean; the integral `areaRun` is defined on the run, not inside the model).
-/
import FsVerif.Proofs.CBeltCons
import FsVerif.Proofs.CBeltClock
namespace FsVerif
namespace CBelt

/-- ∫ occupancy dt along a run that starts in `s` -/
def areaRun (s : CBelt) : List Op → Nat
  | [] => 0
  | op :: ops => s.level * ((s.step op).1.now - s.now) + areaRun (s.step op).1 ops

/-- what the occupancy statistics read: the clock, the two logs and the three accumulators -/
def sig (s : CBelt) : Nat × List Item × List CItem × Nat × Nat × Nat :=
  (s.now, s.gotLog, s.entered, s.wsum, s.lastLevel, s.lastChange)

theorem Fr.sig {s s' : CBelt} (f : Fr s s') : s'.sig = s.sig := by
  simp only [CBelt.sig, f.now, f.gotLog, f.entered, f.stat.1, f.stat.2.1, f.stat.2.2]

theorem sig_trigPut (s : CBelt) : s.trigPut.sig = s.sig := by
  unfold CBelt.trigPut
  split
  · rfl
  · split <;> rfl

theorem sig_trigGet (s : CBelt) : s.trigGet.sig = s.sig := by
  unfold CBelt.trigGet
  split
  · rfl
  · split
    · split <;> rfl
    · rfl

theorem sig_arrive (s : CBelt) (p : MProc) : (s.arrive p).sig = s.sig := by
  unfold CBelt.arrive
  split
  · rfl
  · simp only
    split
    · split
      · show (CBelt.trigPut _).sig = s.sig
        rw [sig_trigPut, sig_trigGet]; rfl
      · show (CBelt.trigPut _).sig = s.sig
        rw [sig_trigPut, sig_trigGet]; try rfl
    · rfl

theorem sig_startPhase (s : CBelt) (p : MProc) (ph rem : Nat) : (s.startPhase p ph rem).sig = s.sig := by
  unfold CBelt.startPhase
  split
  · rfl
  · split
    · simp only
      split
      · rfl
      · exact sig_arrive s p
    · exact sig_arrive s p

theorem sig_initM (s : CBelt) (q : Nat) : (s.initM q).sig = s.sig := by
  unfold CBelt.initM
  split
  · rfl
  · rw [sig_startPhase]; rfl

theorem sig_onTimeout (s : CBelt) (u : Nat) : (s.onTimeout u).sig = s.sig := by
  unfold CBelt.onTimeout
  split
  · split
    · rw [sig_startPhase]; rfl
    · rw [sig_startPhase]; try rfl
  · split
    · simp only
      show (CBelt.interruptItem _ _).sig = s.sig
      rw [(Fr.interruptItem _ _).sig]; try rfl
    · rfl

theorem sig_onInterrupt (s : CBelt) (r : PRef) : (s.onInterrupt r).sig = s.sig := by
  unfold CBelt.onInterrupt
  cases r with
  | delayed d =>
    simp only
    split
    · rfl
    · split <;> rfl
  | move q =>
    simp only
    split
    · rfl
    · split <;> rfl

theorem sig_resumeOne (g : Nat) (s : CBelt) (q : Nat) : (resumeOne g s q).sig = s.sig := by
  unfold CBelt.resumeOne
  split
  · rfl
  · split
    · split
      · simp only; rw [sig_startPhase]; rfl
      · rfl
    · rfl

theorem sig_onResume (s : CBelt) (g : Nat) : (s.onResume g).sig = s.sig := by
  rw [onResume_eq]
  generalize s.waitOrder = l
  induction l generalizing s with
  | nil => rfl
  | cons q qs ih => simp only [List.foldl_cons]; rw [ih, sig_resumeOne]; try rfl

theorem sig_handle (s : CBelt) (k : CKind) : (s.handle k).sig = s.sig := by
  unfold CBelt.handle
  cases k with
  | initM q => exact sig_initM s q
  | initD d =>
    simp only
    split <;> rfl
  | tmo u => exact sig_onTimeout s u
  | shot w g => exact (Fr.onShot s w g).sig
  | re g => exact sig_onResume s g
  | p1e => exact sig_trigPut s
  | cond u =>
    simp only
    split
    · split
      · exact (Fr.bWake s).sig
      · rfl
    · rfl
  | intr r => exact sig_onInterrupt s r

theorem sig_cancelPut (s : CBelt) (tid : Nat) : (s.cancelPut tid).1.sig = s.sig := by
  unfold CBelt.cancelPut
  split
  · show (CBelt.trigPut _).sig = s.sig; rw [sig_trigPut]; try rfl
  · split
    · show (CBelt.trigPut _).sig = s.sig; rw [sig_trigPut]; try rfl
    · rfl

theorem sig_cancelGet (s : CBelt) (tid : Nat) : (s.cancelGet tid).1.sig = s.sig := by
  unfold CBelt.cancelGet
  split
  · show (CBelt.trigGet _).sig = s.sig; rw [sig_trigGet]; try rfl
  · split
    · split
      · rfl
      · split
        · rfl
        · simp only
          split
          · show (CBelt.trigGet _).sig = s.sig; rw [sig_trigGet]; try rfl
          · rfl
    · rfl


theorem removeItemC_length (l : List CItem) (x : Item) (h : l.any (fun r => r.item.id == x.id) = true) :
    (removeItem l x).length + 1 = l.length := by
  unfold removeItem
  split
  · rename_i i hi
    have hlt : i < l.length := by
      have := List.findIdx?_eq_some_iff_findIdx_eq.mp hi
      exact this.1
    rw [List.length_eraseIdx, if_pos hlt]; omega
  · rename_i hn
    rw [List.findIdx?_eq_none_iff] at hn
    rw [List.any_eq_true] at h
    obtain ⟨r, hr, hp⟩ := h
    have := hn r hr
    simp [hp] at this

/-- a put either changes nothing the statistics read, or it is an accepted put: the level is re-recorded
    (one more than before) and the weighted sum is brought up to the current instant -/
theorem sig_put (s : CBelt) (p tid : Nat) (x : Item) :
    (s.put p tid x).1.sig = s.sig ∨
    ∃ e, (s.put p tid x).1.sig = (s.now, s.gotLog, s.entered ++ [e], s.wsum + s.lastLevel * (s.now - s.lastChange), s.level + 1, s.now) := by
  unfold CBelt.put
  split
  · exact Or.inl rfl
  · split
    · exact Or.inl rfl
    · simp only
      split
      · refine Or.inr ⟨{ item := x, seq := s.nput, entry := s.now }, ?_⟩
        have fin : ∀ s4 : CBelt, s4.sig = (s.now, s.gotLog, s.entered ++ [({ item := x, seq := s.nput, entry := s.now } : CItem)],
            s.wsum + s.lastLevel * (s.now - s.lastChange), s.level + 1, s.now) →
            s4.trigGet.sig = (s.now, s.gotLog, s.entered ++ [({ item := x, seq := s.nput, entry := s.now } : CItem)],
            s.wsum + s.lastLevel * (s.now - s.lastChange), s.level + 1, s.now) := fun s4 h => by rw [sig_trigGet]; exact h
        have base : ∀ s4 : CBelt, s4.sig = (s.now, s.gotLog, s.entered ++ [({ item := x, seq := s.nput, entry := s.now } : CItem)],
            s.wsum + s.lastLevel * (s.now - s.lastChange), s.items.length + 1 + s.ready.length, s.now) →
            s4.sig = (s.now, s.gotLog, s.entered ++ [({ item := x, seq := s.nput, entry := s.now } : CItem)],
            s.wsum + s.lastLevel * (s.now - s.lastChange), s.level + 1, s.now) := by
          intro s4 h; rw [h]; simp only [level, Prod.mk.injEq, true_and, and_true]; omega
        split
        · split
          · split
            · rw [(Fr.handleNew _ _).sig]; exact fin _ (base _ (by simp [sig, sched, updLevel, level]))
            · exact fin _ (base _ (by simp [sig, sched, updLevel, level]))
          · split
            · rw [(Fr.handleNew _ _).sig]; show (CBelt.trigGet _).sig = _; exact fin _ (base _ (by simp [sig, sched, updLevel, level]))
            · show (CBelt.trigGet _).sig = _; exact fin _ (base _ (by simp [sig, sched, updLevel, level]))
        · split
          · split
            · rw [(Fr.handleNew _ _).sig]; exact fin _ (base _ (by simp [sig, sched, updLevel, level]))
            · exact fin _ (base _ (by simp [sig, sched, updLevel, level]))
          · split
            · rw [(Fr.handleNew _ _).sig]; show (CBelt.trigGet _).sig = _; exact fin _ (base _ (by simp [sig, sched, updLevel, level]))
            · show (CBelt.trigGet _).sig = _; exact fin _ (base _ (by simp [sig, sched, updLevel, level]))
      · exact Or.inl rfl

theorem sig_get (s : CBelt) (p tid : Nat) :
    (s.get p tid).1.sig = s.sig ∨
    ∃ x, 0 < s.ready.length ∧
      (s.get p tid).1.sig = (s.now, s.gotLog ++ [x], s.entered, s.wsum + s.lastLevel * (s.now - s.lastChange), s.level - 1, s.now) := by
  unfold CBelt.get
  split
  · exact Or.inl rfl
  · split
    · exact Or.inl rfl
    · split
      · exact Or.inl rfl
      · split
        · exact Or.inl rfl
        · simp only
          split
          · rename_i e _ hany
            have hl := removeItemC_length s.ready e.item hany
            refine Or.inr ⟨e.item, by omega, ?_⟩
            have base : ∀ s2 : CBelt, s2.sig = (s.now, s.gotLog ++ [e.item], s.entered, s.wsum + s.lastLevel * (s.now - s.lastChange),
                s.items.length + (removeItem s.ready e.item).length, s.now) →
                s2.trigPut.sig = (s.now, s.gotLog ++ [e.item], s.entered, s.wsum + s.lastLevel * (s.now - s.lastChange), s.level - 1, s.now) := by
              intro s2 h; rw [sig_trigPut, h]; simp only [level, Prod.mk.injEq, true_and, and_true]; omega
            split
            · exact base _ (by simp [sig, updLevel, level])
            · show (CBelt.trigPut _).sig = _; exact base _ (by simp [sig, updLevel, level])
          · exact Or.inl rfl

/-- the bookkeeping invariant, relative to a value `A` of the integral -/
structure StatI (s : CBelt) (A : Nat) : Prop where
  lvl : s.lastLevel + s.gotLog.length = s.entered.length
  chg : s.lastChange ≤ s.now
  int : s.wsum + s.lastLevel * (s.now - s.lastChange) = A

theorem StatI.of_sig {s s' : CBelt} {A : Nat} (h : StatI s A) (e : s'.sig = s.sig) : StatI s' A := by
  simp only [sig, Prod.mk.injEq] at e
  obtain ⟨e1, e2, e3, e4, e5, e6⟩ := e
  exact ⟨by rw [e5, e2, e3]; exact h.lvl, by rw [e6, e1]; exact h.chg, by rw [e4, e5, e1, e6]; exact h.int⟩

/-- the clock moves to `d` and nothing else changes: the integral grows by level × elapsed time -/
theorem StatI.tick {s s' : CBelt} {A d : Nat} (h : StatI s A) (hd : s.now ≤ d)
    (e : s'.sig = (d, s.gotLog, s.entered, s.wsum, s.lastLevel, s.lastChange)) : StatI s' (A + s.lastLevel * (d - s.now)) := by
  simp only [sig, Prod.mk.injEq] at e
  obtain ⟨e1, e2, e3, e4, e5, e6⟩ := e
  refine ⟨by rw [e5, e2, e3]; exact h.lvl, by rw [e6, e1]; exact Nat.le_trans h.chg hd, ?_⟩
  rw [e4, e5, e1, e6, ← h.int]
  have hc := h.chg
  have : d - s.lastChange = (s.now - s.lastChange) + (d - s.now) := by omega
  rw [this, Nat.mul_add, Nat.add_assoc]

/-- `_update_time_averaged_level` at the current instant with a new level `l` that matches the logs -/
theorem StatI.upd {s s' : CBelt} {A l : Nat} {g : List Item} {en : List CItem} (h : StatI s A)
    (hl : l + g.length = en.length)
    (e : s'.sig = (s.now, g, en, s.wsum + s.lastLevel * (s.now - s.lastChange), l, s.now)) : StatI s' A := by
  simp only [sig, Prod.mk.injEq] at e
  obtain ⟨e1, e2, e3, e4, e5, e6⟩ := e
  refine ⟨by rw [e5, e2, e3]; exact hl, by rw [e6, e1]; exact Nat.le_refl _, ?_⟩
  rw [e4, e5, e1, e6, Nat.sub_self, Nat.mul_zero, Nat.add_zero]; exact h.int

/-- conservation, read as a count: occupancy + taken out = entered -/
theorem ConsC.count {s : CBelt} (h : ConsC s) : s.level + s.gotLog.length = s.entered.length := by
  have := h.length_eq
  simp only [idsC, List.length_append, List.length_map] at this
  simp only [CBelt.level]; omega

theorem StatI.level {s : CBelt} {A : Nat} (h : StatI s A) (hc : ConsC s) : s.lastLevel = s.level := by
  have := hc.count; have := h.lvl; omega

theorem StatI.step {s : CBelt} {A : Nat} (h : StatI s A) (hc : ConsC s) (op : Op) :
    StatI (s.step op).1 (A + s.level * ((s.step op).1.now - s.now)) := by
  have hlv := h.level hc
  have hcnt := hc.count
  have h' : StatI { s with fired := [], newReady := [] } A := h.of_sig rfl
  have stay : ∀ {s' : CBelt}, StatI s' A → s'.now = s.now → StatI s' (A + s.level * (s'.now - s.now)) := by
    intro s' hs hn; rw [hn, Nat.sub_self, Nat.mul_zero, Nat.add_zero]; exact hs
  have keep : ∀ {s' : CBelt}, s'.sig = s.sig → StatI s' (A + s.level * (s'.now - s.now)) := by
    intro s' e
    refine stay (h.of_sig e) ?_
    simp only [sig, Prod.mk.injEq] at e; exact e.1
  unfold CBelt.step
  cases op with
  | reservePut p => exact keep (by show (CBelt.trigPut _).sig = s.sig; rw [sig_trigPut]; rfl)
  | reserveGet p => exact keep (by show (CBelt.trigGet _).sig = s.sig; rw [sig_trigGet]; rfl)
  | cancelPut t => exact keep (by simp only; rw [sig_cancelPut]; rfl)
  | cancelGet t => exact keep (by simp only; rw [sig_cancelGet]; rfl)
  | put p t x =>
    simp only
    rcases sig_put { s with fired := [], newReady := [] } p t x with e | ⟨en, e⟩
    · exact keep (e.trans rfl)
    · have hh : s.level + 1 + s.gotLog.length = (s.entered ++ [en]).length := by
        rw [List.length_append]; simp only [List.length_cons, List.length_nil]; omega
      refine stay (h'.upd (l := s.level + 1) hh e) ?_
      · simp only [sig, Prod.mk.injEq] at e; exact e.1
  | get p t =>
    simp only
    rcases sig_get { s with fired := [], newReady := [] } p t with e | ⟨x, hpos, e⟩
    · exact keep (e.trans rfl)
    · have hh : s.level - 1 + (s.gotLog ++ [x]).length = s.entered.length := by
        have : 0 < s.level := by simp only [CBelt.level]; exact Nat.lt_of_lt_of_le hpos (Nat.le_add_left _ _)
        rw [List.length_append]; simp only [List.length_cons, List.length_nil]; omega
      refine stay (h'.upd (l := s.level - 1) hh e) ?_
      · simp only [sig, Prod.mk.injEq] at e; exact e.1
  | adv dt =>
    simp only [CBelt.adv]
    have go : StatI ({ s with fired := [], newReady := [], now := s.now + dt } : CBelt) (A + s.level * (s.now + dt - s.now)) := by
      rw [← hlv]; exact h.tick (Nat.le_add_right _ _) rfl
    split
    · split
      · exact keep rfl
      · exact go
    · exact go
  | ev =>
    simp only [CBelt.ev]
    split
    · exact keep rfl
    · rename_i e q _
      have h1 : StatI ({ s with fired := [], newReady := [], queue := q, now := max s.now e.time } : CBelt) (A + s.level * (max s.now e.time - s.now)) := by
        rw [← hlv]; exact h.tick (Nat.le_max_left _ _) rfl
      have hs := sig_handle ({ s with fired := [], newReady := [], queue := q, now := max s.now e.time } : CBelt) e.kind
      have hn : (CBelt.handle ({ s with fired := [], newReady := [], queue := q, now := max s.now e.time } : CBelt) e.kind).now = max s.now e.time := by
        have := hs; simp only [sig, Prod.mk.injEq] at this; exact this.1
      rw [hn]
      exact h1.of_sig hs
  | final =>
    refine stay (h'.upd (l := s.level) hcnt rfl) rfl

theorem init_statI (cfg : CCfg) : StatI (init cfg) 0 := ⟨rfl, Nat.le_refl _, rfl⟩

theorem run_statI (ops : List Op) : ∀ (s : CBelt) (A : Nat), RC s → StatI s A → StatI (s.run ops) (A + s.areaRun ops) := by
  induction ops with
  | nil => intro s A _ h; exact h
  | cons op ops ih =>
    intro s A hc h
    have := ih _ _ (hc.step op) (h.step hc.cons op)
    simp only [run, List.foldl_cons, areaRun] at this ⊢
    rw [Nat.add_assoc] at this
    exact this

end CBelt
end FsVerif
