/-
`Inv` is an inductive invariant of the positional-store model: it holds initially and every
operation (API call, rejected call, time step) preserves it.
-/
import FsVerif.Proofs.PosStore
namespace FsVerif
namespace PosStore

theorem init_inv (cfg : PosCfg) : Inv (init cfg) := by
  refine ⟨?_, ?_, ?_, ?_, ?_, ?_⟩ <;> simp [init, CapOK, BindOK, TokOK, SortedOK, WakePutOK, ConsOK, QSorted]

/-- With infinite capacity nothing ever waits for space. -/
theorem putQ_nil_of_inf {s : PosStore} (h : WakePutOK s) (hc : s.cfg.cap = none) : s.putQ = [] := by
  by_cases hq : s.putQ = []
  · exact hq
  · have := h hq; unfold admits at this; rw [hc] at this; simp at this

theorem full_of_waiting {s : PosStore} (h : WakePutOK s) (hq : s.putQ ≠ []) :
    ∀ c, s.cfg.cap = some c → c ≤ s.putRes.length + s.items.length := by
  intro c hc
  have := h hq; unfold admits at this; rw [hc] at this; simpa using this

/-! ### reserve_put -/

theorem reservePut_inv {s : PosStore} (p pr) (h : Inv s) : Inv (s.reservePut p pr).1 := by
  obtain ⟨h1, h2, h3, h4, h5, h6⟩ := h
  unfold reservePut
  simp only
  rw [stableSort_append_one h4.1]
  generalize ht : ({ id := s.nextTid, proc := p, prio := s.effPrio pr } : Tok) = t
  have hid : t.id = s.nextTid := by rw [← ht]
  have hfresh : ∀ a ∈ allToks s, a.id < t.id := by
    intro a ha; rw [hid]; exact h3.2 a ha
  refine ⟨trigPut_cap ?_, trigPut_bind ?_, trigPut_tok ?_, trigPut_sorted ?_, trigPut_wake ?_ ?_, trigPut_cons ?_⟩
  · intro c hc; simpa using h1 c hc
  · exact h2
  · rw [tokOK_iff]
    have hp : (allToks { s with nextTid := s.nextTid + 1, putQ := insSorted t s.putQ }).Perm (t :: allToks s) := by
      unfold allToks; simp only [List.append_assoc]
      exact List.Perm.append_right _ (insSorted_perm t s.putQ)
    constructor
    · refine ((hp.map Tok.id).nodup_iff).mpr ?_
      simp only [List.map_cons, List.nodup_cons]
      refine ⟨?_, h3.1⟩
      intro hm
      obtain ⟨a, ha, hea⟩ := List.mem_map.mp hm
      have := hfresh a ha; omega
    · intro a ha
      rcases List.mem_cons.mp (hp.mem_iff.mp ha) with rfl | ha
      · simp [hid]
      · have := h3.2 a ha; simp; omega
  · refine ⟨insSorted_sorted h4.1 ?_, h4.2⟩
    intro a ha; exact hfresh a (by unfold allToks; simp [ha])
  · intro t' q hq hne c hc
    simp only at hq hc ⊢
    by_cases hs : s.putQ = []
    · rw [hs] at hq; simp [insSorted] at hq; exact absurd hq.2 hne
    · have := full_of_waiting h5 hs c hc; omega
  · intro hc
    simp only at hc ⊢
    rw [putQ_nil_of_inf h5 hc]; simp [insSorted]
  · exact h6

/-! ### reserve_get -/

theorem reserveGet_inv {s : PosStore} (p pr f) (h : Inv s) : Inv (s.reserveGet p pr f).1 := by
  obtain ⟨h1, h2, h3, h4, h5, h6⟩ := h
  unfold reserveGet
  simp only
  rw [stableSort_append_one h4.2]
  generalize ht : ({ id := s.nextTid, proc := p, prio := s.effPrio pr,
                     filt := if s.cfg.filter then f else .always } : Tok) = t
  have hid : t.id = s.nextTid := by rw [← ht]
  have hfresh : ∀ a ∈ allToks s, a.id < t.id := by
    intro a ha; rw [hid]; exact h3.2 a ha
  refine ⟨trigGet_cap ?_, trigGet_bind ?_ ?_, trigGet_tok ?_, trigGet_sorted ?_, trigGet_wakePut ?_, trigGet_cons ?_⟩
  · intro c hc; simpa using h1 c hc
  · exact h2
  · exact bind_len h2
  · rw [tokOK_iff]
    have hp : (allToks { s with nextTid := s.nextTid + 1, getQ := insSorted t s.getQ }).Perm (t :: allToks s) := by
      unfold allToks; simp only [List.append_assoc]
      have h1 : (insSorted t s.getQ ++ s.getRes).Perm (t :: (s.getQ ++ s.getRes)) :=
        List.Perm.append_right _ (insSorted_perm t s.getQ)
      have h2 : (s.putQ ++ (s.putRes ++ (insSorted t s.getQ ++ s.getRes))).Perm
          (s.putQ ++ (s.putRes ++ t :: (s.getQ ++ s.getRes))) :=
        List.Perm.append_left _ (List.Perm.append_left _ h1)
      refine h2.trans ?_
      have h3 : (s.putRes ++ t :: (s.getQ ++ s.getRes)).Perm (t :: (s.putRes ++ (s.getQ ++ s.getRes))) :=
        List.perm_middle
      exact (List.Perm.append_left _ h3).trans List.perm_middle
    constructor
    · refine ((hp.map Tok.id).nodup_iff).mpr ?_
      simp only [List.map_cons, List.nodup_cons]
      refine ⟨?_, h3.1⟩
      intro hm
      obtain ⟨a, ha, hea⟩ := List.mem_map.mp hm
      have := hfresh a ha; omega
    · intro a ha
      rcases List.mem_cons.mp (hp.mem_iff.mp ha) with rfl | ha
      · simp [hid]
      · have := h3.2 a ha; simp; omega
  · refine ⟨h4.1, insSorted_sorted h4.2 ?_⟩
    intro a ha; exact hfresh a (by unfold allToks; simp [ha])
  · exact h5
  · exact h6


/-! ### put -/

@[simp] theorem addTimer_cfg (s : PosStore) : s.addTimer.cfg = s.cfg := by unfold addTimer; frame
@[simp] theorem addTimer_items (s : PosStore) : s.addTimer.items = s.items := by unfold addTimer; frame
@[simp] theorem addTimer_putQ (s : PosStore) : s.addTimer.putQ = s.putQ := by unfold addTimer; frame
@[simp] theorem addTimer_putRes (s : PosStore) : s.addTimer.putRes = s.putRes := by unfold addTimer; frame
@[simp] theorem addTimer_getQ (s : PosStore) : s.addTimer.getQ = s.getQ := by unfold addTimer; frame
@[simp] theorem addTimer_getRes (s : PosStore) : s.addTimer.getRes = s.getRes := by unfold addTimer; frame
@[simp] theorem addTimer_resEv (s : PosStore) : s.addTimer.resEv = s.resEv := by unfold addTimer; frame
@[simp] theorem addTimer_nextTid (s : PosStore) : s.addTimer.nextTid = s.nextTid := by unfold addTimer; frame
@[simp] theorem addTimer_now (s : PosStore) : s.addTimer.now = s.now := by unfold addTimer; frame
@[simp] theorem addTimer_putLog (s : PosStore) : s.addTimer.putLog = s.putLog := by unfold addTimer; frame
@[simp] theorem addTimer_gotLog (s : PosStore) : s.addTimer.gotLog = s.gotLog := by unfold addTimer; frame
@[simp] theorem addTimer_fired (s : PosStore) : s.addTimer.fired = s.fired := by unfold addTimer; frame

@[simp] theorem restamp_length (l : List Entry) (i n : Nat) : (restamp l i n).length = l.length := by
  simp [restamp]

theorem restamp_fst (l : List Entry) (i n : Nat) : (restamp l i n).map (·.item) = l.map (·.item) := by
  unfold restamp
  rw [List.map_map]
  apply List.map_congr_left
  intro a _
  simp only [Function.comp]
  split <;> rfl

/-- The second capacity test of `_do_put` cannot fail (C01: a granted reservation is honoured). -/
theorem capRoom_of_granted {s : PosStore} (h : CapOK s) {t : Tok} (ht : t ∈ s.putRes) :
    ((s.dropPutRes t).addTimer).capRoom = true := by
  unfold capRoom
  simp only [addTimer_cfg, addTimer_items, dropPutRes]
  split
  · rfl
  · rename_i c hc
    have := h c hc
    have hl : 0 < s.putRes.length := List.length_pos_of_mem ht
    simp; omega

/-- Outcome of `put`, case by case. -/
theorem put_cases (s : PosStore) (p tid : Nat) (x : Item) :
    (s.put p tid x = (s, .err .runtime) ∧ ∀ t ∈ s.putRes, ¬ (t.id = tid ∧ t.proc = p)) ∨
    (∃ t, t ∈ s.putRes ∧ t.id = tid ∧ t.proc = p ∧
      ((((s.dropPutRes t).addTimer).capRoom = true ∧
        s.put p tid x = (((((s.dropPutRes t).addTimer).addItem x).trigGet).updLevel, .ok)) ∨
       (((s.dropPutRes t).addTimer).capRoom = false ∧
        s.put p tid x = ((s.dropPutRes t).addTimer, .err .runtime)))) := by
  unfold put
  split
  · left; refine ⟨rfl, ?_⟩
    intro t ht; simp_all
  · split
    · rename_i hnone
      left; refine ⟨rfl, ?_⟩
      intro t ht hc
      have := List.find?_eq_none.mp hnone t ht
      simp [hc.1, hc.2] at this
    · rename_i t hsome
      right
      have hm := List.mem_of_find?_eq_some hsome
      have hp := List.find?_some hsome
      simp at hp
      refine ⟨t, hm, hp.1, hp.2, ?_⟩
      split
      · left; exact ⟨by assumption, rfl⟩
      · right; exact ⟨by simp_all, rfl⟩

theorem put_inv {s : PosStore} (p tid x) (h : Inv s) : Inv (s.put p tid x).1 := by
  rcases put_cases s p tid x with ⟨he, _⟩ | ⟨t, ht, _, _, ⟨hroom, he⟩ | ⟨hroom, he⟩⟩
  · rw [he]; exact h
  · rw [he]; simp only
    apply updLevel_inv
    obtain ⟨h1, h2, h3, h4, h5, h6⟩ := h
    have hl : 0 < s.putRes.length := List.length_pos_of_mem ht
    have hlen : (s.putRes.erase t).length + 1 = s.putRes.length := by
      rw [List.length_erase_of_mem ht]; omega
    refine ⟨trigGet_cap ?_, trigGet_bind ?_ ?_, trigGet_tok ?_, trigGet_sorted ?_, trigGet_wakePut ?_, trigGet_cons ?_⟩
    · intro c hc
      simp [addItem, dropPutRes] at hc ⊢
      have := h1 c hc; omega
    · unfold BindOK at *; simp [addItem, dropPutRes]
      exact ⟨h2.1, by omega⟩
    · simp [addItem, dropPutRes]; exact bind_len h2
    · refine tokOK_of_sub ?_ (by simp [addItem, dropPutRes]) h3
      unfold allToks; simp only [addItem, dropPutRes, addTimer_putQ, addTimer_putRes, addTimer_getQ, addTimer_getRes]
      exact List.Sublist.append (List.Sublist.append (List.Sublist.append (List.Sublist.refl _) List.erase_sublist) (List.Sublist.refl _)) (List.Sublist.refl _)
    · unfold SortedOK at *; simpa [addItem, dropPutRes] using h4
    · unfold WakePutOK admits at *
      simp only [addItem, dropPutRes, addTimer_putQ, addTimer_putRes, addTimer_cfg, addTimer_items]
      intro hq
      have := h5 hq
      split at this
      · simp at this
      · simp at this ⊢; omega
    · unfold ConsOK at *
      simp only [addItem, dropPutRes, addTimer_putLog, addTimer_gotLog, addTimer_items, List.map_append, restamp_fst]
      simp only [List.map_cons, List.map_nil, ← List.append_assoc]
      exact List.Perm.append_right _ h6
  · exfalso
    rw [capRoom_of_granted h.cap ht] at hroom
    exact absurd hroom (by simp)

/-! ### get -/

theorem get_cases (s : PosStore) (p tid : Nat) :
    (s.get p tid = (s, .err .runtime) ∧ ∀ t ∈ s.getRes, ¬ (t.id = tid ∧ t.proc = p)) ∨
    (∃ t, t ∈ s.getRes ∧ t.id = tid ∧ t.proc = p ∧
      ((s.resEv.idxOf t ≥ s.resEv.length ∧ s.get p tid = (s, .err .value)) ∨
       (s.resEv.idxOf t < s.resEv.length ∧ s.items[s.resEv.idxOf t]? = none ∧
          s.get p tid = (s.dropGetRes t, .err .index)) ∨
       (∃ e, s.resEv.idxOf t < s.resEv.length ∧ s.items[s.resEv.idxOf t]? = some e ∧
          s.get p tid = ((((s.dropGetRes t).takeItem (s.resEv.idxOf t) e.item).trigPut).updLevel, .item e.item)))) := by
  unfold get
  split
  · left; refine ⟨rfl, ?_⟩
    intro t ht; simp_all
  · split
    · rename_i hnone
      left; refine ⟨rfl, ?_⟩
      intro t ht hc
      have := List.find?_eq_none.mp hnone t ht
      simp [hc.1, hc.2] at this
    · rename_i t hsome
      right
      have hm := List.mem_of_find?_eq_some hsome
      have hp := List.find?_some hsome
      simp at hp
      refine ⟨t, hm, hp.1, hp.2, ?_⟩
      split
      · left; exact ⟨by assumption, rfl⟩
      · rename_i hlt
        right
        split
        · left; exact ⟨by omega, by assumption, rfl⟩
        · rename_i e hx
          right; exact ⟨e, by omega, hx, rfl⟩

theorem eraseIdx_idxOf_perm {l m : List Tok} {t : Tok} (hp : l.Perm m) :
    (l.eraseIdx (l.idxOf t)).Perm (m.erase t) := by
  rw [← List.erase_eq_eraseIdx_of_idxOf rfl]; exact hp.erase t


theorem perm_cons_eraseIdx {α} {l : List α} {i : Nat} {a : α} (h : l[i]? = some a) :
    l.Perm (a :: l.eraseIdx i) := by
  induction l generalizing i with
  | nil => simp at h
  | cons x xs ih =>
    cases i with
    | zero => simp at h; subst h; simp
    | succ n =>
      simp at h
      simp only [List.eraseIdx_cons_succ]
      exact (List.Perm.cons x (ih h)).trans (List.Perm.swap a x _)

theorem length_eraseIdx_lt {α} {l : List α} {i : Nat} (h : i < l.length) :
    (l.eraseIdx i).length + 1 = l.length := by
  rw [List.length_eraseIdx_of_lt h]; omega

theorem get_inv {s : PosStore} (p tid) (h : Inv s) : Inv (s.get p tid).1 := by
  obtain ⟨h1, h2, h3, h4, h5, h6⟩ := h
  have hlen := bind_len h2
  rcases get_cases s p tid with ⟨he, _⟩ | ⟨t, ht, _, _, ⟨hi, he⟩ | ⟨hi, hnone, he⟩ | ⟨e, hi, hx, he⟩⟩
  · rw [he]; exact ⟨h1, h2, h3, h4, h5, h6⟩
  · rw [he]; exact ⟨h1, h2, h3, h4, h5, h6⟩
  · exfalso
    have := h2.2
    have hlt : s.resEv.idxOf t < s.items.length := by omega
    rw [List.getElem?_eq_getElem hlt] at hnone
    simp at hnone
  · rw [he]; simp only
    apply updLevel_inv
    have hii : s.resEv.idxOf t < s.items.length := by have := h2.2; omega
    have hgl : (s.getRes.erase t).length + 1 = s.getRes.length := by
      have : 0 < s.getRes.length := List.length_pos_of_mem ht
      rw [List.length_erase_of_mem ht]; omega
    refine ⟨trigPut_cap ?_, trigPut_bind ?_, trigPut_tok ?_, trigPut_sorted ?_, trigPut_wake ?_ ?_, trigPut_cons ?_⟩
    · intro c hc
      simp [takeItem, dropGetRes] at hc ⊢
      have := h1 c hc
      have := length_eraseIdx_lt hii
      omega
    · unfold BindOK; simp only [takeItem, dropGetRes]
      refine ⟨eraseIdx_idxOf_perm h2.1, ?_⟩
      have := length_eraseIdx_lt hii
      have := length_eraseIdx_lt hi
      have := h2.2
      omega
    · refine tokOK_of_sub ?_ (by simp [takeItem, dropGetRes]) h3
      unfold allToks; simp only [takeItem, dropGetRes]
      exact List.Sublist.append (List.Sublist.refl _) List.erase_sublist
    · unfold SortedOK at *; simpa [takeItem, dropGetRes] using h4
    · intro t' q hq hne c hc
      simp only [takeItem, dropGetRes] at hq hc ⊢
      have := full_of_waiting h5 (by rw [hq]; simp) c hc
      have := length_eraseIdx_lt hii
      omega
    · intro hc
      simp only [takeItem, dropGetRes] at hc ⊢
      rw [putQ_nil_of_inf h5 hc]; simp
    · unfold ConsOK at *
      simp only [takeItem, dropGetRes]
      have hperm := perm_cons_eraseIdx hx
      have h7 : (s.items.map (·.item)).Perm (e.item :: (s.items.eraseIdx (s.resEv.idxOf t)).map (·.item)) := by
        simpa using hperm.map (·.item)
      refine List.Perm.trans ?_ h6
      rw [List.append_assoc]
      exact List.Perm.append_left _ (by simpa using h7.symm)

/-! ### cancellations -/

theorem cancelPut_inv {s : PosStore} (tid) (h : Inv s) : Inv (s.cancelPut tid).1 := by
  obtain ⟨h1, h2, h3, h4, h5, h6⟩ := h
  unfold cancelPut
  split
  · rename_i t hf
    have ht := (findTok_some hf).1
    simp only
    refine ⟨trigPut_cap ?_, trigPut_bind ?_, trigPut_tok ?_, trigPut_sorted ?_, trigPut_wake ?_ ?_, trigPut_cons ?_⟩
    · intro c hc; simpa using h1 c hc
    · exact h2
    · refine tokOK_of_sub ?_ (by simp) h3
      unfold allToks; simp only
      exact List.Sublist.append (List.Sublist.append (List.Sublist.append List.erase_sublist (List.Sublist.refl _)) (List.Sublist.refl _)) (List.Sublist.refl _)
    · exact ⟨List.Pairwise.sublist List.erase_sublist h4.1, h4.2⟩
    · intro t' q hq hne c hc
      simp only at hq hc ⊢
      have := full_of_waiting h5 (List.ne_nil_of_mem ht) c hc
      omega
    · intro hc
      simp only at hc
      have := putQ_nil_of_inf h5 hc
      rw [this] at ht; simp at ht
    · exact h6
  · split
    · rename_i t hf
      have ht := (findTok_some hf).1
      simp only
      have hlen : (s.putRes.erase t).length + 1 = s.putRes.length := by
        have : 0 < s.putRes.length := List.length_pos_of_mem ht
        rw [List.length_erase_of_mem ht]; omega
      refine ⟨trigPut_cap ?_, trigPut_bind ?_, trigPut_tok ?_, trigPut_sorted ?_, trigPut_wake ?_ ?_, trigPut_cons ?_⟩
      · intro c hc; simp [dropPutRes] at hc ⊢; have := h1 c hc; omega
      · exact h2
      · refine tokOK_of_sub ?_ (by simp [dropPutRes]) h3
        unfold allToks; simp only [dropPutRes]
        exact List.Sublist.append (List.Sublist.append (List.Sublist.append (List.Sublist.refl _) List.erase_sublist) (List.Sublist.refl _)) (List.Sublist.refl _)
      · exact h4
      · intro t' q hq hne c hc
        simp only [dropPutRes] at hq hc ⊢
        have := full_of_waiting h5 (by rw [hq]; simp) c hc
        omega
      · intro hc
        simp only [dropPutRes] at hc ⊢
        rw [putQ_nil_of_inf h5 hc]; simp
      · exact h6
    · exact ⟨h1, h2, h3, h4, h5, h6⟩

theorem cancelGet_inv {s : PosStore} (tid) (h : Inv s) : Inv (s.cancelGet tid).1 := by
  obtain ⟨h1, h2, h3, h4, h5, h6⟩ := h
  have hlen := bind_len h2
  unfold cancelGet
  split
  · rename_i t hf
    simp only
    refine ⟨trigGet_cap ?_, trigGet_bind ?_ ?_, trigGet_tok ?_, trigGet_sorted ?_, trigGet_wakePut ?_, trigGet_cons ?_⟩
    · intro c hc; simpa using h1 c hc
    · exact h2
    · exact hlen
    · refine tokOK_of_sub ?_ (by simp) h3
      unfold allToks; simp only
      exact List.Sublist.append (List.Sublist.append (List.Sublist.refl _) List.erase_sublist) (List.Sublist.refl _)
    · exact ⟨h4.1, List.Pairwise.sublist List.erase_sublist h4.2⟩
    · exact h5
    · exact h6
  · split
    · rename_i t hf
      have ht := (findTok_some hf).1
      have hte : t ∈ s.resEv := h2.1.mem_iff.mpr ht
      have hi : s.resEv.idxOf t < s.resEv.length := List.idxOf_lt_length_of_mem hte
      have hii : s.resEv.idxOf t < s.items.length := by have := h2.2; omega
      split
      · omega
      · split
        · rename_i hnone
          rw [List.getElem?_eq_getElem hii] at hnone
          simp at hnone
        · rename_i it hx
          simp only
          have hgl : (s.getRes.erase t).length + 1 = s.getRes.length := by
            have : 0 < s.getRes.length := List.length_pos_of_mem ht
            rw [List.length_erase_of_mem ht]; omega
          have hel := length_eraseIdx_lt hii
          have hrl := length_eraseIdx_lt hi
          refine ⟨trigGet_cap ?_, trigGet_bind ?_ ?_, trigGet_tok ?_, trigGet_sorted ?_, trigGet_wakePut ?_, trigGet_cons ?_⟩
          · intro c hc
            simp [releaseItem, dropGetRes] at hc ⊢
            have := h1 c hc; omega
          · unfold BindOK; simp only [releaseItem, dropGetRes]
            refine ⟨eraseIdx_idxOf_perm h2.1, ?_⟩
            simp; have := h2.2; omega
          · simp only [releaseItem, dropGetRes]; omega
          · refine tokOK_of_sub ?_ (by simp [releaseItem, dropGetRes]) h3
            unfold allToks; simp only [releaseItem, dropGetRes]
            exact List.Sublist.append (List.Sublist.refl _) List.erase_sublist
          · exact h4
          · unfold WakePutOK admits at *
            simp only [releaseItem, dropGetRes, pyInsert_length]
            rw [hel]; exact h5
          · unfold ConsOK at *
            simp only [releaseItem, dropGetRes]
            refine List.Perm.trans ?_ h6
            apply List.Perm.append_left
            apply List.Perm.map
            exact (pyInsert_perm _ _ _).trans (perm_cons_eraseIdx hx).symm
    · exact ⟨h1, h2, h3, h4, h5, h6⟩

/-! ### time steps -/

theorem setNow_inv {s : PosStore} (d : Nat) (h : Inv s) : Inv (s.setNow d) := by
  obtain ⟨h1, h2, h3, h4, h5, h6⟩ := h
  exact ⟨h1, h2, h3, h4, h5, h6⟩

theorem trigGet_inv {s : PosStore} (h : Inv s) : Inv s.trigGet :=
  ⟨trigGet_cap h.cap, trigGet_bind h.bind (bind_len h.bind), trigGet_tok h.tok, trigGet_sorted h.sorted,
   trigGet_wakePut h.wakePut, trigGet_cons h.cons⟩

theorem fireAll_inv (ds : List Nat) {s : PosStore} (h : Inv s) : Inv (fireAll ds s) := by
  induction ds generalizing s with
  | nil => exact h
  | cons d ds ih => exact ih (trigGet_inv (setNow_inv d h))

theorem setTimers_inv {s : PosStore} (l : List Nat) (h : Inv s) : Inv { s with timers := l } := by
  obtain ⟨h1, h2, h3, h4, h5, h6⟩ := h
  exact ⟨h1, h2, h3, h4, h5, h6⟩

theorem adv_inv {s : PosStore} (dt) (h : Inv s) : Inv (s.adv dt) := by
  unfold adv
  split
  · exact h
  · exact setNow_inv _ (fireAll_inv _ (setTimers_inv _ h))

theorem settle_inv {s : PosStore} (h : Inv s) : Inv s.settle := by
  unfold settle
  exact fireAll_inv _ (setTimers_inv _ h)

theorem kstepAux_inv (n : Nat) {s : PosStore} (h : Inv s) : Inv (kstepAux n s) := by
  induction n generalizing s with
  | zero => exact h
  | succ n ih =>
    unfold kstepAux
    split
    · exact h
    · split
      · simp only
        split
        · exact ih (trigGet_inv (setTimers_inv _ h))
        · exact trigGet_inv (setTimers_inv _ h)
      · exact h

theorem clearFired_inv {s : PosStore} (h : Inv s) : Inv { s with fired := [] } := by
  obtain ⟨h1, h2, h3, h4, h5, h6⟩ := h
  exact ⟨h1, h2, h3, h4, h5, h6⟩

theorem step_inv {s : PosStore} (op : Op) (h : Inv s) : Inv (s.step op).1 := by
  have h' := clearFired_inv h
  unfold step
  cases op with
  | reservePut p pr => exact reservePut_inv p pr h'
  | reserveGet p pr f => exact reserveGet_inv p pr f h'
  | put p t x => exact put_inv p t x h'
  | get p t => exact get_inv p t h'
  | cancelPut t => exact cancelPut_inv t h'
  | cancelGet t => exact cancelGet_inv t h'
  | adv dt => exact adv_inv dt h'
  | settle => exact settle_inv h'
  | kstep => exact kstepAux_inv _ h'

theorem run_inv (ops : List Op) {s : PosStore} (h : Inv s) : Inv (run s ops) := by
  induction ops generalizing s with
  | nil => exact h
  | cons op ops ih => exact ih (step_inv op h)

/-- Every reachable state satisfies the invariant. -/
theorem reachable_inv {s : PosStore} (h : Reachable s) : Inv s := by
  obtain ⟨cfg, ops, rfl⟩ := h
  exact run_inv ops (init_inv cfg)

end PosStore
end FsVerif
