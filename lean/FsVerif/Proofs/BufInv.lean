/-
Inductive invariant of the BufferStore model (both modes), under the discipline that an object
is not stored while it is still inside (a flow item is in one place at a time).
-/
import FsVerif.Proofs.BufStore
import FsVerif.Proofs.PosInv
namespace FsVerif
namespace BufStore

open PosStore (perm_move perm_cons_eraseIdx length_eraseIdx_lt)

def inside (s : BufStore) : List BEntry := s.transit ++ s.ready
def allToks (s : BufStore) : List Tok := s.putQ ++ s.putRes ++ s.getQ ++ s.getRes

/-- entries inside hold pairwise different objects -/
def Distinct (s : BufStore) : Prop := ((inside s).map (·.item.id)).Nodup

/-- the part of `ready_items` the reserved items must occupy -/
def resPart (s : BufStore) : List BEntry :=
  match s.cfg.mode with
  | .fifo => s.ready.take s.resEv.length
  | .lifo => s.ready.drop (s.ready.length - s.resEv.length)

/-- everything except the two wake-up conditions (those are re-established by the triggers) -/
structure Pre (s : BufStore) : Prop where
  cap : ∀ c, s.cfg.cap = some c → s.putRes.length + s.level ≤ c
  tokNd : ((allToks s).map Tok.id).Nodup
  tokLt : ∀ t ∈ allToks s, t.id < s.nextTid
  bindEv : s.resEv.Perm s.getRes
  bindLen : s.resEv.length = s.resItems.length
  bindLe : s.resEv.length ≤ s.ready.length
  bindItems : s.resItems.Perm (resPart s)
  dist : Distinct s
  alive : s.crashed = false
  cons : (s.gotLog ++ (inside s).map (·.item)).Perm s.putLog

def WakePut (s : BufStore) : Prop := s.putQ ≠ [] → s.admits = false
def WakeGet (s : BufStore) : Prop := s.getQ ≠ [] → s.ready.length ≤ s.getRes.length

structure Core (s : BufStore) : Prop extends Pre s where
  wakePut : WakePut s
  wakeGet : WakeGet s

structure BInv (s : BufStore) : Prop extends Core s where
  timers : s.timers.Perm s.transit

/-- the discipline: an object is put only while it is not inside -/
def OpOK (s : BufStore) : Op → Prop
  | .put _ _ x _ => hasItem (inside s) x = false
  | _ => True

/-! ### small facts -/

theorem nodup_of_nodup_map {α β} {f : α → β} {l : List α} (h : (l.map f).Nodup) : l.Nodup := by
  induction l with
  | nil => simp
  | cons x xs ih =>
    simp only [List.map_cons, List.nodup_cons] at h ⊢
    exact ⟨fun hm => h.1 (List.mem_map.mpr ⟨x, hm, rfl⟩), ih h.2⟩

theorem dist_nodup {s : BufStore} (h : Distinct s) : (inside s).Nodup := by
  unfold Distinct at h
  exact nodup_of_nodup_map h

theorem ready_nodup {s : BufStore} (h : Distinct s) : s.ready.Nodup := by
  have := nodup_of_nodup_map h
  unfold inside at this
  exact (List.nodup_append.mp this).2.1

theorem ready_ids_nodup {s : BufStore} (h : Distinct s) : (s.ready.map (·.item.id)).Nodup := by
  unfold Distinct inside at h
  rw [List.map_append] at h
  exact (List.nodup_append.mp h).2.1

theorem removeItem_eq_erase {s : BufStore} (h : Distinct s) {e : BEntry} (he : e ∈ s.ready) :
    removeItem s.ready e.item = s.ready.erase e := by
  unfold removeItem
  exact findIdx_eraseIdx_eq_erase (fun x : BEntry => x.item.id) (ready_ids_nodup h) he

theorem hasItem_of_mem {l : List BEntry} {e : BEntry} (he : e ∈ l) : hasItem l e.item = true := by
  unfold hasItem
  exact List.any_eq_true.mpr ⟨e, he, by simp⟩

theorem resPart_sub {s : BufStore} : ∀ e ∈ resPart s, e ∈ s.ready := by
  intro e he
  unfold resPart at he
  split at he
  · exact List.mem_of_mem_take he
  · exact List.mem_of_mem_drop he

theorem resItems_sub {s : BufStore} (h : Pre s) : ∀ e ∈ s.resItems, e ∈ s.ready :=
  fun e he => resPart_sub e (h.bindItems.mem_iff.mp he)

/-! ### generic frame rule: fields that the invariants do not read -/

theorem pre_of_eq {s s' : BufStore} (h : Pre s)
    (e1 : s'.cfg = s.cfg) (e2 : s'.nextTid = s.nextTid) (e3 : s'.transit = s.transit) (e4 : s'.ready = s.ready)
    (e5 : s'.putQ = s.putQ) (e6 : s'.putRes = s.putRes) (e7 : s'.getQ = s.getQ) (e8 : s'.getRes = s.getRes)
    (e9 : s'.resEv = s.resEv) (e10 : s'.resItems = s.resItems) (e11 : s'.crashed = s.crashed)
    (e12 : s'.putLog = s.putLog) (e13 : s'.gotLog = s.gotLog) : Pre s' := by
  obtain ⟨a, b, c, f, g, i, j, k, l, m⟩ := h
  constructor <;>
    simp only [allToks, level, inside, Distinct, resPart, e1, e2, e3, e4, e5, e6, e7, e8, e9, e10, e11, e12, e13] at * <;>
    assumption

theorem core_of_eq {s s' : BufStore} (h : Core s)
    (e1 : s'.cfg = s.cfg) (e2 : s'.nextTid = s.nextTid) (e3 : s'.transit = s.transit) (e4 : s'.ready = s.ready)
    (e5 : s'.putQ = s.putQ) (e6 : s'.putRes = s.putRes) (e7 : s'.getQ = s.getQ) (e8 : s'.getRes = s.getRes)
    (e9 : s'.resEv = s.resEv) (e10 : s'.resItems = s.resItems) (e11 : s'.crashed = s.crashed)
    (e12 : s'.putLog = s.putLog) (e13 : s'.gotLog = s.gotLog) : Core s' := by
  refine ⟨pre_of_eq h.toPre e1 e2 e3 e4 e5 e6 e7 e8 e9 e10 e11 e12 e13, ?_, ?_⟩
  · have := h.wakePut; unfold WakePut admits level at *; rw [e1, e3, e4, e5, e6]; exact this
  · have := h.wakeGet; unfold WakeGet at *; rw [e4, e7, e8]; exact this

theorem updLevel_core {s : BufStore} (h : Core s) : Core s.updLevel :=
  core_of_eq h (by simp) (by simp) (by simp) (by simp) (by simp) (by simp) (by simp) (by simp) (by simp) (by simp) (by simp) (by simp) (by simp)

theorem updLevel_pre {s : BufStore} (h : Pre s) : Pre s.updLevel :=
  pre_of_eq h (by simp) (by simp) (by simp) (by simp) (by simp) (by simp) (by simp) (by simp) (by simp) (by simp) (by simp) (by simp) (by simp)

theorem setNow_core {s : BufStore} (d : Nat) (h : Core s) : Core (s.setNow d) :=
  core_of_eq h rfl rfl rfl rfl rfl rfl rfl rfl rfl rfl rfl rfl rfl

theorem clearFired_core {s : BufStore} (h : Core s) : Core { s with fired := [] } :=
  core_of_eq h rfl rfl rfl rfl rfl rfl rfl rfl rfl rfl rfl rfl rfl

/-! ### trigPut -/

theorem trigPut_allToks (s : BufStore) : (allToks s.trigPut).Perm (allToks s) := by
  rcases trigPut_cases s with ⟨he, _⟩ | ⟨t, q, hq, ha, he⟩
  · rw [he]
  · rw [he]; unfold allToks; simp only [hq]
    refine List.Perm.append_right _ (List.Perm.append_right _ ?_)
    simpa using perm_move q s.putRes t

theorem trigPut_pre {s : BufStore} (h : Pre s) : Pre s.trigPut := by
  obtain ⟨a, b, c, f, g, i, j, k, l, m⟩ := h
  have hp := trigPut_allToks s
  refine ⟨?_, ((hp.map Tok.id).nodup_iff).mpr b, fun t' ht' => by simpa using c t' (hp.mem_iff.mp ht'),
    by simpa using f, by simpa using g, by simpa using i, ?_, ?_, by simpa using l, ?_⟩
  · rcases trigPut_cases s with ⟨he, _⟩ | ⟨t, q, hq, ha, he⟩
    · rw [he]; exact a
    · rw [he]; intro c' hc'
      have := (admits_iff s).mp ha c' hc'
      simp [level] at this ⊢; omega
  · unfold resPart at *; simpa using j
  · unfold Distinct inside at *; simpa using k
  · unfold inside at *; simpa using m

theorem trigPut_wakePut {s : BufStore}
    (hw : ∀ t q, s.putQ = t :: q → q ≠ [] → ∀ c, s.cfg.cap = some c → c ≤ s.putRes.length + s.level + 1)
    (hinf : s.cfg.cap = none → s.putQ.length ≤ 1) : WakePut s.trigPut := by
  rcases trigPut_cases s with ⟨he, hq | hna⟩ | ⟨t, q, hq, ha, he⟩
  · rw [he]; intro hne; exact absurd hq hne
  · rw [he]; intro _; exact hna
  · rw [he]; intro hne
    simp only at hne
    unfold admits; simp only
    cases hc : s.cfg.cap with
    | none =>
      have := hinf hc; rw [hq] at this
      cases q with
      | nil => exact absurd rfl hne
      | cons _ _ => simp at this
    | some c' =>
      have := hw t q hq hne c' hc
      simp [level] at this ⊢; omega

theorem trigPut_wakeGet {s : BufStore} (h : WakeGet s) : WakeGet s.trigPut := by
  unfold WakeGet at *; simpa using h

theorem full_of_waiting {s : BufStore} (h : WakePut s) (hq : s.putQ ≠ []) :
    ∀ c, s.cfg.cap = some c → c ≤ s.putRes.length + s.level := by
  intro c hc
  have := h hq; unfold admits at this; rw [hc] at this; simpa using this

theorem putQ_nil_of_inf {s : BufStore} (h : WakePut s) (hc : s.cfg.cap = none) : s.putQ = [] := by
  by_cases hq : s.putQ = []
  · exact hq
  · have := h hq; unfold admits at this; rw [hc] at this; simp at this

/-- `trigPut` on a state where the space side is already settled. -/
theorem trigPut_core_settled {s : BufStore} (h : Core s) : Core s.trigPut := by
  refine ⟨trigPut_pre h.toPre, trigPut_wakePut ?_ ?_, trigPut_wakeGet h.wakeGet⟩
  · intro t q hq _ c hc
    have := full_of_waiting h.wakePut (by rw [hq]; simp) c hc; omega
  · intro hc; rw [putQ_nil_of_inf h.wakePut hc]; simp

/-! ### trigGet -/

theorem bindIdx_some {s : BufStore} (hk : s.resEv.length < s.ready.length) :
    ∃ e, s.bindIdx.bind (fun i => s.ready[i]?) = some e ∧
      (match s.cfg.mode with
       | .fifo => s.ready.take (s.resEv.length + 1) = s.ready.take s.resEv.length ++ [e]
       | .lifo => s.ready.drop (s.ready.length - (s.resEv.length + 1)) = e :: s.ready.drop (s.ready.length - s.resEv.length)) := by
  unfold bindIdx
  cases hm : s.cfg.mode with
  | fifo =>
    refine ⟨s.ready[s.resEv.length], by simp [hk], ?_⟩
    simp only
    exact List.take_succ_eq_append_getElem hk
  | lifo =>
    have hi : s.ready.length - 1 - s.resEv.length < s.ready.length := by omega
    refine ⟨s.ready[s.ready.length - 1 - s.resEv.length], by simp [hk, hi], ?_⟩
    simp only
    have := List.drop_eq_getElem_cons hi
    have e1 : s.ready.length - (s.resEv.length + 1) = s.ready.length - 1 - s.resEv.length := by omega
    have e2 : s.ready.length - 1 - s.resEv.length + 1 = s.ready.length - s.resEv.length := by omega
    rw [e1, this, e2]

theorem trigGet_allToks (s : BufStore) (_hl : s.resEv.length = s.getRes.length) (_hle : s.resEv.length ≤ s.ready.length) :
    (allToks s.trigGet).Perm (allToks s) := by
  rcases trigGet_cases s with ⟨he, _⟩ | ⟨t, q, e, hq, hs, hb, he⟩ | ⟨t, q, hq, hs, hb, he⟩
  · rw [he]
  · rw [he]; unfold allToks; simp only [hq, List.append_assoc]
    refine List.Perm.append_left _ (List.Perm.append_left _ ?_)
    simpa using perm_move q s.getRes t
  · rw [he]; unfold allToks; simp only [hq, List.append_assoc]
    refine List.Perm.append_left _ (List.Perm.append_left _ ?_)
    simpa using perm_move q s.getRes t

theorem trigGet_pre {s : BufStore} (h : Pre s) : Pre s.trigGet := by
  have hlenEv : s.resEv.length = s.getRes.length := h.bindEv.length_eq
  have hp := trigGet_allToks s hlenEv h.bindLe
  rcases trigGet_cases s with ⟨he, hq⟩ | ⟨t, q, e, hq, hs, hb, he⟩ | ⟨t, q, hq, hs, hb, he⟩
  · rw [he]; exact h
  · rw [he] at hp ⊢
    have hlt : s.resEv.length < s.ready.length := by have := (serves_iff s).mp hs; omega
    obtain ⟨e', he', hpart⟩ := bindIdx_some hlt
    rw [hb] at he'; cases he'
    obtain ⟨a, b, c, f, g, i, j, k, l, m⟩ := h
    refine ⟨a, ((hp.map Tok.id).nodup_iff).mpr b, fun t' ht' => c t' (hp.mem_iff.mp ht'),
      List.Perm.append_right _ f, by simp [g], by simp; omega, ?_, k, l, m⟩
    unfold resPart at j ⊢
    simp only [List.length_append, List.length_cons, List.length_nil]
    cases hm : s.cfg.mode with
    | fifo =>
      simp only [hm] at j hpart ⊢
      rw [hpart]; exact List.Perm.append_right _ j
    | lifo =>
      simp only [hm] at j hpart ⊢
      have e1 : s.resEv.length + 0 + 1 = s.resEv.length + 1 := by omega
      rw [e1, hpart]
      exact (List.perm_append_singleton e s.resItems).trans (List.Perm.cons e j)
  · exfalso
    have hlt : s.resEv.length < s.ready.length := by have := (serves_iff s).mp hs; omega
    obtain ⟨e', he', _⟩ := bindIdx_some hlt
    rw [hb] at he'; cases he'

theorem trigGet_wakeGet {s : BufStore} (h : Pre s)
    (hw : ∀ t q, s.getQ = t :: q → q ≠ [] → s.ready.length ≤ s.getRes.length + 1) : WakeGet s.trigGet := by
  have hlenEv : s.resEv.length = s.getRes.length := h.bindEv.length_eq
  rcases trigGet_cases s with ⟨he, hq⟩ | ⟨t, q, e, hq, hs, hb, he⟩ | ⟨t, q, hq, hs, hb, he⟩
  · rw [he]; intro hne
    rcases hq with hq | hq
    · exact absurd hq hne
    · have : ¬ s.getRes.length < s.ready.length := fun hlt => by
        rw [(serves_iff s).mpr hlt] at hq; simp at hq
      omega
  · rw [he]; intro hne
    simp only at hne ⊢
    have := hw t q hq hne
    simp; omega
  · rw [he]; intro hne
    simp only at hne ⊢
    have := hw t q hq hne
    simp; omega

theorem trigGet_wakePut {s : BufStore} (h : WakePut s) : WakePut s.trigGet := by
  unfold WakePut admits at *; simpa using h

theorem trigGet_core_settled {s : BufStore} (h : Core s) : Core s.trigGet := by
  refine ⟨trigGet_pre h.toPre, trigGet_wakePut h.wakePut, trigGet_wakeGet h.toPre ?_⟩
  intro t q hq _
  have := h.wakeGet (by rw [hq]; simp); omega


/-! ### reserve_put / reserve_get -/

theorem reservePut_core {s : BufStore} (p : Nat) (h : Core s) : Core (s.reservePut p).1 := by
  unfold reservePut
  simp only
  generalize ht : ({ id := s.nextTid, proc := p } : Tok) = t
  have hid : t.id = s.nextTid := by rw [← ht]
  have hp : (allToks { s with nextTid := s.nextTid + 1, putQ := s.putQ ++ [t] }).Perm (t :: allToks s) := by
    unfold allToks; simp only [List.append_assoc]
    have : (s.putQ ++ (t :: (s.putRes ++ (s.getQ ++ s.getRes)))).Perm (t :: (s.putQ ++ (s.putRes ++ (s.getQ ++ s.getRes)))) := List.perm_middle
    simpa using this
  have hpre : Pre { s with nextTid := s.nextTid + 1, putQ := s.putQ ++ [t] } := by
    obtain ⟨⟨a, b, c, f, g, i, j, k, l, m⟩, _, _⟩ := h
    refine ⟨a, ?_, ?_, f, g, i, j, k, l, m⟩
    · refine ((hp.map Tok.id).nodup_iff).mpr ?_
      simp only [List.map_cons, List.nodup_cons]
      refine ⟨?_, b⟩
      intro hm
      obtain ⟨a', ha', hea⟩ := List.mem_map.mp hm
      have := c a' ha'; omega
    · intro t' ht'
      rcases List.mem_cons.mp (hp.mem_iff.mp ht') with rfl | ht'
      · simp [hid]
      · have := c t' ht'; simp; omega
  refine ⟨trigPut_pre hpre, trigPut_wakePut ?_ ?_, trigPut_wakeGet h.wakeGet⟩
  · intro t' q hq hne c hc
    simp only [level] at hq hc ⊢
    by_cases hs : s.putQ = []
    · rw [hs] at hq; simp at hq; exact absurd hq.2 hne
    · have := full_of_waiting h.wakePut hs c hc; simp [level] at this; omega
  · intro hc
    simp only at hc ⊢
    rw [putQ_nil_of_inf h.wakePut hc]; simp

theorem reserveGet_core {s : BufStore} (p : Nat) (h : Core s) : Core (s.reserveGet p).1 := by
  unfold reserveGet
  simp only
  generalize ht : ({ id := s.nextTid, proc := p } : Tok) = t
  have hid : t.id = s.nextTid := by rw [← ht]
  have hp : (allToks { s with nextTid := s.nextTid + 1, getQ := s.getQ ++ [t] }).Perm (t :: allToks s) := by
    unfold allToks; simp only [List.append_assoc]
    have h1 : (s.getQ ++ ([t] ++ s.getRes)).Perm (t :: (s.getQ ++ s.getRes)) := by simpa using List.perm_middle
    have h2 : (s.putQ ++ (s.putRes ++ (s.getQ ++ ([t] ++ s.getRes)))).Perm (s.putQ ++ (s.putRes ++ t :: (s.getQ ++ s.getRes))) :=
      List.Perm.append_left _ (List.Perm.append_left _ h1)
    refine h2.trans ?_
    have h3 : (s.putRes ++ t :: (s.getQ ++ s.getRes)).Perm (t :: (s.putRes ++ (s.getQ ++ s.getRes))) := List.perm_middle
    exact (List.Perm.append_left _ h3).trans List.perm_middle
  have hpre : Pre { s with nextTid := s.nextTid + 1, getQ := s.getQ ++ [t] } := by
    obtain ⟨⟨a, b, c, f, g, i, j, k, l, m⟩, _, _⟩ := h
    refine ⟨a, ?_, ?_, f, g, i, j, k, l, m⟩
    · refine ((hp.map Tok.id).nodup_iff).mpr ?_
      simp only [List.map_cons, List.nodup_cons]
      refine ⟨?_, b⟩
      intro hm
      obtain ⟨a', ha', hea⟩ := List.mem_map.mp hm
      have := c a' ha'; omega
    · intro t' ht'
      rcases List.mem_cons.mp (hp.mem_iff.mp ht') with rfl | ht'
      · simp [hid]
      · have := c t' ht'; simp; omega
  refine ⟨trigGet_pre hpre, trigGet_wakePut h.wakePut, trigGet_wakeGet hpre ?_⟩
  intro t' q hq hne
  simp only at hq ⊢
  by_cases hs : s.getQ = []
  · rw [hs] at hq; simp at hq; exact absurd hq.2 hne
  · have := h.wakeGet hs; omega

/-! ### put -/

@[simp] theorem insTimer_perm (e : BEntry) (l : List BEntry) : (insTimer e l).Perm (e :: l) := by
  induction l with
  | nil => simp [insTimer]
  | cons x xs ih =>
    unfold insTimer
    split
    · exact List.Perm.refl _
    · exact (List.Perm.cons x ih).trans (List.Perm.swap e x xs)

theorem capRoom_of_granted {s : BufStore} (h : Pre s) {t : Tok} (ht : t ∈ s.putRes) :
    (s.dropPutRes t).capRoom = true := by
  unfold capRoom
  cases hc : s.cfg.cap with
  | none => simp [dropPutRes, hc]
  | some c =>
    have := h.cap c hc
    have hl : 0 < s.putRes.length := List.length_pos_of_mem ht
    simp only [dropPutRes, hc, level] at this ⊢
    apply decide_eq_true
    omega

theorem put_cases (s : BufStore) (p tid : Nat) (x : Item) (d : Nat) :
    (s.put p tid x d = (s, .err .runtime) ∧ ∀ t ∈ s.putRes, ¬ (t.id = tid ∧ t.proc = p)) ∨
    (∃ t, t ∈ s.putRes ∧ t.id = tid ∧ t.proc = p ∧
      (((s.dropPutRes t).capRoom = true ∧
        s.put p tid x d = (((((s.dropPutRes t).addItem x d).updLevel).trigGet), .ok)) ∨
       ((s.dropPutRes t).capRoom = false ∧ s.put p tid x d = (s.dropPutRes t, .err .runtime)))) := by
  unfold put
  split
  · left; refine ⟨rfl, ?_⟩
    intro t ht; simp_all
  · split
    · rename_i hnone
      left; refine ⟨rfl, ?_⟩
      intro t ht hc
      have := List.find?_eq_none.mp hnone t ht
      simp [hc.1, hc.2] at this
    · rename_i t hsome
      right
      have hm := List.mem_of_find?_eq_some hsome
      have hp := List.find?_some hsome
      simp at hp
      refine ⟨t, hm, hp.1, hp.2, ?_⟩
      split
      · left; exact ⟨by assumption, rfl⟩
      · right; exact ⟨by simp_all, rfl⟩

theorem put_core {s : BufStore} (p tid x d) (h : Core s) (hok : hasItem (inside s) x = false) :
    Core (s.put p tid x d).1 ∧
    ((s.put p tid x d).1.timers.Perm ((s.put p tid x d).1.transit) ∨ ¬ s.timers.Perm s.transit) := by
  rcases put_cases s p tid x d with ⟨he, _⟩ | ⟨t, ht, _, _, ⟨hroom, he⟩ | ⟨hroom, he⟩⟩
  · rw [he]; exact ⟨h, by by_cases hh : s.timers.Perm s.transit <;> simp [hh]⟩
  · rw [he]; simp only
    have hl : 0 < s.putRes.length := List.length_pos_of_mem ht
    have hlen : (s.putRes.erase t).length + 1 = s.putRes.length := by
      rw [List.length_erase_of_mem ht]; omega
    obtain ⟨⟨a, b, c, f, g, i, j, k, l, m⟩, wp, wg⟩ := h
    have hpre : Pre ((s.dropPutRes t).addItem x d) := by
      refine ⟨?_, ?_, ?_, f, g, i, ?_, ?_, l, ?_⟩
      · intro c' hc'
        simp [addItem, dropPutRes, level] at hc' ⊢
        have := a c' hc'; simp [level] at this; omega
      · have hsub : (allToks ((s.dropPutRes t).addItem x d)).Sublist (allToks s) := by
          unfold allToks; simp only [addItem, dropPutRes]
          exact List.Sublist.append (List.Sublist.append (List.Sublist.append (List.Sublist.refl _) List.erase_sublist) (List.Sublist.refl _)) (List.Sublist.refl _)
        exact (hsub.map _).nodup b
      · intro t' ht'
        have hsub : (allToks ((s.dropPutRes t).addItem x d)).Sublist (allToks s) := by
          unfold allToks; simp only [addItem, dropPutRes]
          exact List.Sublist.append (List.Sublist.append (List.Sublist.append (List.Sublist.refl _) List.erase_sublist) (List.Sublist.refl _)) (List.Sublist.refl _)
        have := c t' (hsub.subset ht'); simpa [addItem, dropPutRes] using this
      · unfold resPart at *; simpa [addItem, dropPutRes] using j
      · unfold Distinct inside at *
        simp only [addItem, dropPutRes, List.map_append, List.map_cons, List.map_nil, List.append_assoc]
        have hnot : x.id ∉ (s.transit ++ s.ready).map (·.item.id) := by
          intro hm
          obtain ⟨e, he1, he2⟩ := List.mem_map.mp hm
          unfold hasItem at hok
          have := List.any_eq_false.mp hok e he1
          simp [he2] at this
        have hperm : (s.transit.map (·.item.id) ++ (x.id :: s.ready.map (·.item.id))).Perm
            (x.id :: (s.transit ++ s.ready).map (·.item.id)) := by
          simpa using (List.perm_middle (a := x.id) (l₁ := s.transit.map (·.item.id)) (l₂ := s.ready.map (·.item.id)))
        refine hperm.nodup_iff.mpr ?_
        exact List.nodup_cons.mpr ⟨hnot, k⟩
      · unfold inside at *
        simp only [addItem, dropPutRes, List.map_append, List.map_cons, List.map_nil, List.append_assoc]
        have h1 : (s.gotLog ++ (s.transit.map (·.item) ++ (x :: s.ready.map (·.item)))).Perm
            (s.gotLog ++ (s.transit.map (·.item) ++ s.ready.map (·.item)) ++ [x]) := by
          have : (s.transit.map (·.item) ++ (x :: s.ready.map (·.item))).Perm
              ((s.transit.map (·.item) ++ s.ready.map (·.item)) ++ [x]) := by
            refine List.perm_middle.trans ?_
            exact (List.perm_append_singleton x _).symm
          simpa using List.Perm.append_left s.gotLog this
        refine h1.trans ?_
        have := List.Perm.append_right [x] (by simpa using m : (s.gotLog ++ (s.transit.map (·.item) ++ s.ready.map (·.item))).Perm s.putLog)
        simpa using this
    refine ⟨⟨trigGet_pre (updLevel_pre hpre), trigGet_wakePut ?_, trigGet_wakeGet (updLevel_pre hpre) ?_⟩, ?_⟩
    · unfold WakePut admits at *
      intro hq
      have := wp (by simpa [addItem, dropPutRes] using hq)
      cases hc : s.cfg.cap with
      | none => simp [hc] at this
      | some c' =>
        simp only [hc, level] at this
        have this' := of_decide_eq_false this
        simp only [updLevel_cfg, updLevel_putRes, updLevel_transit, updLevel_ready, addItem, dropPutRes, hc, level,
          List.length_append, List.length_cons, List.length_nil]
        apply decide_eq_false
        omega
    · intro t' q hq _
      simp only [updLevel_getQ, updLevel_ready, updLevel_getRes, addItem, dropPutRes] at hq ⊢
      have := wg (by rw [hq]; simp); omega
    · by_cases hh : s.timers.Perm s.transit
      · left
        simp only [trigGet_timers, trigGet_transit, updLevel_timers, updLevel_transit, addItem, dropPutRes]
        exact (insTimer_perm _ _).trans ((List.Perm.cons _ hh).trans (List.perm_append_singleton _ _).symm)
      · right; exact hh
  · exfalso
    rw [capRoom_of_granted h.toPre ht] at hroom
    exact absurd hroom (by simp)


/-! ### get -/

theorem get_cases (s : BufStore) (p tid : Nat) :
    (s.get p tid = (s, .err .runtime) ∧ ∀ t ∈ s.getRes, ¬ (t.id = tid ∧ t.proc = p)) ∨
    (∃ t, t ∈ s.getRes ∧ t.id = tid ∧ t.proc = p ∧
      ((s.resEv.idxOf t ≥ s.resEv.length ∧ (s.get p tid).2 = .err .value) ∨
       (s.resEv.idxOf t < s.resEv.length ∧ s.resItems[s.resEv.idxOf t]? = none ∧ (s.get p tid).2 = .err .value) ∨
       (∃ e, s.resEv.idxOf t < s.resEv.length ∧ s.resItems[s.resEv.idxOf t]? = some e ∧
          ((hasItem s.ready e.item = true ∧
            s.get p tid = ((((s.unbind t (s.resEv.idxOf t)).takeEntry e).updLevel).trigPut, .item e.item)) ∨
           (hasItem s.ready e.item = false ∧ (s.get p tid).2 = .err .value))))) := by
  unfold get
  split
  · left; refine ⟨rfl, ?_⟩
    intro t ht; simp_all
  · split
    · rename_i hnone
      left; refine ⟨rfl, ?_⟩
      intro t ht hc
      have := List.find?_eq_none.mp hnone t ht
      simp [hc.1, hc.2] at this
    · rename_i t hsome
      right
      have hm := List.mem_of_find?_eq_some hsome
      have hp := List.find?_some hsome
      simp at hp
      refine ⟨t, hm, hp.1, hp.2, ?_⟩
      split
      · left; exact ⟨by assumption, rfl⟩
      · rename_i hlt
        right
        split
        · left; exact ⟨by omega, by assumption, rfl⟩
        · rename_i e hx
          right
          refine ⟨e, by omega, hx, ?_⟩
          split
          · left; exact ⟨by assumption, rfl⟩
          · right; exact ⟨by simp_all, rfl⟩

/-- the entry bound to a granted retrieval is in `ready_items` -/
theorem bound_mem_ready {s : BufStore} (h : Pre s) {i : Nat} {e : BEntry} (he : s.resItems[i]? = some e) :
    e ∈ s.ready := resItems_sub h e (List.mem_of_getElem? he)

theorem eraseIdx_perm_erase {l : List BEntry} {i : Nat} {e : BEntry} (he : l[i]? = some e) :
    (l.eraseIdx i).Perm (l.erase e) := by
  have h1 := perm_cons_eraseIdx he
  have h2 := h1.erase e
  simpa using h2.symm

/-- what the reserved part looks like after entry `e` (reserved) has been taken out of `ready` -/
theorem resPart_erase {s : BufStore} (h : Pre s) {e : BEntry} (he : e ∈ resPart s) (hk : 0 < s.resEv.length) :
    (match s.cfg.mode with
     | .fifo => (s.ready.erase e).take (s.resEv.length - 1)
     | .lifo => (s.ready.erase e).drop ((s.ready.erase e).length - (s.resEv.length - 1))) = (resPart s).erase e := by
  have hnd := ready_nodup h.dist
  have her : e ∈ s.ready := resPart_sub e he
  unfold resPart at he ⊢
  cases hm : s.cfg.mode with
  | fifo =>
    simp only [hm] at he ⊢
    exact erase_take_of_mem_take hnd he
  | lifo =>
    simp only [hm] at he ⊢
    have hl : (s.ready.erase e).length = s.ready.length - 1 := List.length_erase_of_mem her
    have hle := h.bindLe
    have : s.ready.length - 1 - (s.resEv.length - 1) = s.ready.length - s.resEv.length := by omega
    rw [hl, this]
    exact erase_drop_of_mem_drop hnd he

theorem unbind_take_pre {s : BufStore} (h : Pre s) {t : Tok} (ht : t ∈ s.getRes) {e : BEntry}
    (hidx : s.resEv.idxOf t < s.resEv.length) (he : s.resItems[s.resEv.idxOf t]? = some e) :
    Pre ((s.unbind t (s.resEv.idxOf t)).takeEntry e) := by
  have her := bound_mem_ready h he
  have hrem := removeItem_eq_erase h.dist her
  have heres : e ∈ s.resItems := List.mem_of_getElem? he
  have hepart : e ∈ resPart s := h.bindItems.mem_iff.mp heres
  obtain ⟨a, b, c, f, g, i, j, k, l, m⟩ := h
  have hgl : (s.getRes.erase t).length + 1 = s.getRes.length := by
    have : 0 < s.getRes.length := List.length_pos_of_mem ht
    rw [List.length_erase_of_mem ht]; omega
  have hrl := length_eraseIdx_lt hidx
  have hil : (s.resItems.eraseIdx (s.resEv.idxOf t)).length + 1 = s.resItems.length :=
    length_eraseIdx_lt (by omega)
  have hreadyl : (s.ready.erase e).length + 1 = s.ready.length := by
    have : 0 < s.ready.length := List.length_pos_of_mem her
    rw [List.length_erase_of_mem her]; omega
  have hsub : (allToks ((s.unbind t (s.resEv.idxOf t)).takeEntry e)).Sublist (allToks s) := by
    unfold allToks; simp only [takeEntry, unbind]
    exact List.Sublist.append (List.Sublist.refl _) List.erase_sublist
  refine ⟨?_, (hsub.map _).nodup b, fun t' ht' => by simpa [takeEntry, unbind] using c t' (hsub.subset ht'), ?_, ?_, ?_, ?_, ?_, l, ?_⟩
  · intro c' hc'
    simp only [takeEntry, unbind, level, hrem] at hc' ⊢
    have := a c' hc'; simp only [level] at this; omega
  · simp only [takeEntry, unbind]
    rw [← List.erase_eq_eraseIdx_of_idxOf rfl]; exact f.erase t
  · simp only [takeEntry, unbind]; omega
  · simp only [takeEntry, unbind, hrem]; omega
  · have hpe := resPart_erase ⟨a, b, c, f, g, i, j, k, l, m⟩ hepart (by omega)
    unfold resPart
    simp only [takeEntry, unbind, hrem]
    have hkl : (s.resEv.eraseIdx (s.resEv.idxOf t)).length = s.resEv.length - 1 := by omega
    rw [hkl]
    have hperm : (s.resItems.eraseIdx (s.resEv.idxOf t)).Perm ((resPart s).erase e) :=
      (eraseIdx_perm_erase he).trans (j.erase e)
    cases hm : s.cfg.mode with
    | fifo => simp only [hm] at hpe ⊢; rw [hpe]; exact hperm
    | lifo => simp only [hm] at hpe ⊢; rw [hpe]; exact hperm
  · unfold Distinct inside at *
    simp only [takeEntry, unbind, hrem]
    have hs : (s.transit ++ s.ready.erase e).Sublist (s.transit ++ s.ready) :=
      List.Sublist.append (List.Sublist.refl _) List.erase_sublist
    exact (hs.map _).nodup k
  · unfold inside at *
    simp only [takeEntry, unbind, hrem]
    have hp : (s.transit ++ s.ready).Perm (e :: (s.transit ++ s.ready.erase e)) := by
      have := List.perm_cons_erase her
      exact (List.Perm.append_left _ this).trans List.perm_middle
    have hp2 := hp.map (·.item)
    refine List.Perm.trans ?_ m
    rw [List.append_assoc]
    exact List.Perm.append_left _ (by simpa using hp2.symm)

theorem get_core {s : BufStore} (p tid) (h : Core s) : Core (s.get p tid).1 ∧ (s.get p tid).1.timers = s.timers ∧
    (s.get p tid).1.transit = s.transit := by
  have hlenEv : s.resEv.length = s.getRes.length := h.bindEv.length_eq
  rcases get_cases s p tid with ⟨he, _⟩ | ⟨t, ht, _, _, ⟨hidx, _⟩ | ⟨hidx, hnone, _⟩ | ⟨e, hidx, hx, ⟨hhas, he⟩ | ⟨hhas, _⟩⟩⟩
  · rw [he]; exact ⟨h, rfl, rfl⟩
  · exfalso
    have hte : t ∈ s.resEv := h.bindEv.mem_iff.mpr ht
    have := List.idxOf_lt_length_of_mem hte; omega
  · exfalso
    have := h.bindLen
    rw [List.getElem?_eq_getElem (by omega)] at hnone; simp at hnone
  · rw [he]; simp only
    have hpre := unbind_take_pre h.toPre ht hidx hx
    have her := bound_mem_ready h.toPre hx
    have hrem := removeItem_eq_erase h.dist her
    refine ⟨⟨trigPut_pre (updLevel_pre hpre), trigPut_wakePut ?_ ?_, trigPut_wakeGet ?_⟩, by simp [takeEntry, unbind], by simp [takeEntry, unbind]⟩
    · intro t' q hq hne c hc
      simp only [updLevel_putQ, updLevel_cfg, updLevel_putRes, level, updLevel_transit, updLevel_ready, takeEntry, unbind, hrem] at hq hc ⊢
      have := full_of_waiting h.wakePut (by rw [hq]; simp) c hc
      simp only [level] at this
      have : (s.ready.erase e).length + 1 = s.ready.length := by
        have : 0 < s.ready.length := List.length_pos_of_mem her
        rw [List.length_erase_of_mem her]; omega
      omega
    · intro hc
      simp only [updLevel_cfg, updLevel_putQ, takeEntry, unbind] at hc ⊢
      rw [putQ_nil_of_inf h.wakePut hc]; simp
    · unfold WakeGet
      simp only [updLevel_getQ, updLevel_ready, updLevel_getRes, takeEntry, unbind, hrem]
      intro hne
      have := h.wakeGet hne
      have h1 : (s.ready.erase e).length + 1 = s.ready.length := by
        have : 0 < s.ready.length := List.length_pos_of_mem her
        rw [List.length_erase_of_mem her]; omega
      have h2 : (s.getRes.erase t).length + 1 = s.getRes.length := by
        have : 0 < s.getRes.length := List.length_pos_of_mem ht
        rw [List.length_erase_of_mem ht]; omega
      omega
  · exfalso
    rw [hasItem_of_mem (bound_mem_ready h.toPre hx)] at hhas
    exact absurd hhas (by simp)


/-! ### cancellations -/

theorem cancelPut_core {s : BufStore} (tid) (h : Core s) : Core (s.cancelPut tid).1 := by
  unfold cancelPut
  split
  · rename_i t hf
    have ht := (findTok_some hf).1
    simp only
    have hsub : (allToks { s with putQ := s.putQ.erase t }).Sublist (allToks s) := by
      unfold allToks; simp only
      exact List.Sublist.append (List.Sublist.append (List.Sublist.append List.erase_sublist (List.Sublist.refl _)) (List.Sublist.refl _)) (List.Sublist.refl _)
    have hpre : Pre { s with putQ := s.putQ.erase t } := by
      obtain ⟨⟨a, b, c, f, g, i, j, k, l, m⟩, _, _⟩ := h
      exact ⟨a, (hsub.map _).nodup b, fun t' ht' => c t' (hsub.subset ht'), f, g, i, j, k, l, m⟩
    refine ⟨trigPut_pre hpre, trigPut_wakePut ?_ ?_, trigPut_wakeGet h.wakeGet⟩
    · intro t' q hq _ c hc
      simp only [level] at hq hc ⊢
      have := full_of_waiting h.wakePut (List.ne_nil_of_mem ht) c hc
      simp only [level] at this; omega
    · intro hc
      simp only at hc
      have := putQ_nil_of_inf h.wakePut hc
      rw [this] at ht; simp at ht
  · split
    · rename_i t hf
      have ht := (findTok_some hf).1
      simp only
      have hlen : (s.putRes.erase t).length + 1 = s.putRes.length := by
        have : 0 < s.putRes.length := List.length_pos_of_mem ht
        rw [List.length_erase_of_mem ht]; omega
      have hsub : (allToks (s.dropPutRes t)).Sublist (allToks s) := by
        unfold allToks; simp only [dropPutRes]
        exact List.Sublist.append (List.Sublist.append (List.Sublist.append (List.Sublist.refl _) List.erase_sublist) (List.Sublist.refl _)) (List.Sublist.refl _)
      have hpre : Pre (s.dropPutRes t) := by
        obtain ⟨⟨a, b, c, f, g, i, j, k, l, m⟩, _, _⟩ := h
        refine ⟨?_, (hsub.map _).nodup b, fun t' ht' => c t' (hsub.subset ht'), f, g, i, j, k, l, m⟩
        intro c' hc'
        simp only [dropPutRes, level] at hc' ⊢
        have := a c' hc'; simp only [level] at this; omega
      refine ⟨trigPut_pre hpre, trigPut_wakePut ?_ ?_, trigPut_wakeGet h.wakeGet⟩
      · intro t' q hq _ c hc
        simp only [dropPutRes, level] at hq hc ⊢
        have := full_of_waiting h.wakePut (by rw [hq]; simp) c hc
        simp only [level] at this; omega
      · intro hc
        simp only [dropPutRes] at hc ⊢
        rw [putQ_nil_of_inf h.wakePut hc]; simp
    · exact h

/-- what the reserved part looks like after the released entry is re-inserted -/
theorem resPart_release {s : BufStore} (r : List BEntry) (e : BEntry) (k : Nat) (hk : k ≤ r.length) :
    (match s.cfg.mode with
     | .fifo => (pyInsert r k e).take k
     | .lifo => (pyInsert r (r.length - k) e).drop ((pyInsert r (r.length - k) e).length - k)) =
    (match s.cfg.mode with
     | .fifo => r.take k
     | .lifo => r.drop (r.length - k)) := by
  cases s.cfg.mode with
  | fifo => exact take_pyInsert' r k e hk
  | lifo =>
    simp only [pyInsert_length]
    have : r.length + 1 - k = (r.length - k) + 1 := by omega
    rw [this]
    exact drop_succ_pyInsert r (r.length - k) e (by omega)

theorem cancelGet_core {s : BufStore} (tid) (h : Core s) : Core (s.cancelGet tid).1 ∧
    (s.cancelGet tid).1.timers = s.timers ∧ (s.cancelGet tid).1.transit = s.transit := by
  have hlenEv : s.resEv.length = s.getRes.length := h.bindEv.length_eq
  unfold cancelGet
  split
  · rename_i t hf
    have ht := (findTok_some hf).1
    simp only
    have hsub : (allToks { s with getQ := s.getQ.erase t }).Sublist (allToks s) := by
      unfold allToks; simp only
      exact List.Sublist.append (List.Sublist.append (List.Sublist.refl _) List.erase_sublist) (List.Sublist.refl _)
    have hpre : Pre { s with getQ := s.getQ.erase t } := by
      obtain ⟨⟨a, b, c, f, g, i, j, k, l, m⟩, _, _⟩ := h
      exact ⟨a, (hsub.map _).nodup b, fun t' ht' => c t' (hsub.subset ht'), f, g, i, j, k, l, m⟩
    refine ⟨⟨trigGet_pre hpre, trigGet_wakePut h.wakePut, trigGet_wakeGet hpre ?_⟩, by simp, by simp⟩
    intro t' q hq _
    simp only at hq ⊢
    have := h.wakeGet (List.ne_nil_of_mem ht); omega
  · split
    · rename_i t hf
      have ht := (findTok_some hf).1
      have hte : t ∈ s.resEv := h.bindEv.mem_iff.mpr ht
      have hidx : s.resEv.idxOf t < s.resEv.length := List.idxOf_lt_length_of_mem hte
      split
      · omega
      · split
        · rename_i hnone
          have := h.bindLen
          rw [List.getElem?_eq_getElem (by omega)] at hnone; simp at hnone
        · rename_i e hx
          have her := bound_mem_ready h.toPre hx
          have hrem := removeItem_eq_erase h.dist her
          rw [if_pos (hasItem_of_mem her)]
          simp only
          have heres : e ∈ s.resItems := List.mem_of_getElem? hx
          have hepart : e ∈ resPart s := h.bindItems.mem_iff.mp heres
          have hgl : (s.getRes.erase t).length + 1 = s.getRes.length := by
            have : 0 < s.getRes.length := List.length_pos_of_mem ht
            rw [List.length_erase_of_mem ht]; omega
          have hrl := length_eraseIdx_lt hidx
          have hil : (s.resItems.eraseIdx (s.resEv.idxOf t)).length + 1 = s.resItems.length :=
            length_eraseIdx_lt (by have := h.bindLen; omega)
          have hreadyl : (s.ready.erase e).length + 1 = s.ready.length := by
            have : 0 < s.ready.length := List.length_pos_of_mem her
            rw [List.length_erase_of_mem her]; omega
          have hble := h.bindLe
          have hkl : (s.resEv.eraseIdx (s.resEv.idxOf t)).length = s.resEv.length - 1 := by omega
          have hkle : s.resEv.length - 1 ≤ (s.ready.erase e).length := by omega
          have hpre : Pre ((s.unbind t (s.resEv.idxOf t)).release e) := by
            have hpe := resPart_erase h.toPre hepart (by omega)
            have hrel := resPart_release (s := s) (s.ready.erase e) e (s.resEv.length - 1) hkle
            obtain ⟨⟨a, b, c, f, g, i, j, k, l, m⟩, _, _⟩ := h
            have hsub : (allToks ((s.unbind t (s.resEv.idxOf t)).release e)).Sublist (allToks s) := by
              unfold allToks; simp only [release, unbind]
              exact List.Sublist.append (List.Sublist.refl _) List.erase_sublist
            have hperm : (pyInsert (s.ready.erase e) (match s.cfg.mode with
                | .fifo => s.resEv.length - 1
                | .lifo => (s.ready.erase e).length - (s.resEv.length - 1)) e).Perm s.ready :=
              (pyInsert_perm _ _ _).trans (List.perm_cons_erase her).symm
            refine ⟨?_, (hsub.map _).nodup b, fun t' ht' => by simpa [release, unbind] using c t' (hsub.subset ht'), ?_, ?_, ?_, ?_, ?_, l, ?_⟩
            · intro c' hc'
              simp only [release, unbind, level, hrem, pyInsert_length] at hc' ⊢
              have := a c' hc'; simp only [level] at this; omega
            · simp only [release, unbind]
              rw [← List.erase_eq_eraseIdx_of_idxOf rfl]; exact f.erase t
            · simp only [release, unbind]; omega
            · simp only [release, unbind, hrem, pyInsert_length]; omega
            · unfold resPart
              simp only [release, unbind, hrem, hkl]
              have hperm2 : (s.resItems.eraseIdx (s.resEv.idxOf t)).Perm ((resPart s).erase e) :=
                (eraseIdx_perm_erase hx).trans (j.erase e)
              cases hm : s.cfg.mode with
              | fifo =>
                simp only [hm] at hpe hrel ⊢
                rw [hrel, hpe]; exact hperm2
              | lifo =>
                simp only [hm] at hpe hrel ⊢
                rw [hrel, hpe]; exact hperm2
            · unfold Distinct inside at *
              simp only [release, unbind, hrem, hkl]
              have hp : (s.transit ++ pyInsert (s.ready.erase e) (match s.cfg.mode with
                | .fifo => s.resEv.length - 1
                | .lifo => (s.ready.erase e).length - (s.resEv.length - 1)) e).Perm (s.transit ++ s.ready) :=
                List.Perm.append_left _ hperm
              exact ((hp.map _).nodup_iff).mpr k
            · unfold inside at *
              simp only [release, unbind, hrem, hkl]
              have hp : (s.transit ++ pyInsert (s.ready.erase e) (match s.cfg.mode with
                | .fifo => s.resEv.length - 1
                | .lifo => (s.ready.erase e).length - (s.resEv.length - 1)) e).Perm (s.transit ++ s.ready) :=
                List.Perm.append_left _ hperm
              exact (List.Perm.append_left _ (hp.map _)).trans m
          refine ⟨⟨trigGet_pre hpre, trigGet_wakePut ?_, trigGet_wakeGet hpre ?_⟩, by simp [release, unbind], by simp [release, unbind]⟩
          · have := h.wakePut
            unfold WakePut admits level at *
            simp only [release, unbind, hrem, pyInsert_length, hreadyl]
            exact this
          · intro t' q hq _
            simp only [release, unbind, hrem, pyInsert_length] at hq ⊢
            have := h.wakeGet (by rw [hq]; simp); omega
    · exact ⟨h, rfl, rfl⟩

/-! ### an item becomes ready -/

theorem moveRoom_of_transit {s : BufStore} (h : Pre s) {e : BEntry} (he : e ∈ s.transit) : s.moveRoom e = true := by
  unfold moveRoom
  cases hc : s.cfg.cap with
  | none => rfl
  | some c =>
    have := h.cap c hc
    have hl : (s.transit.erase e).length + 1 = s.transit.length := by
      have : 0 < s.transit.length := List.length_pos_of_mem he
      rw [List.length_erase_of_mem he]; omega
    simp only [level] at this ⊢
    apply decide_eq_true; omega

theorem arrive_resPart {s : BufStore} (e : BEntry) (hk : s.resEv.length ≤ s.ready.length) :
    resPart (s.arrive e) = resPart s := by
  unfold resPart arrive
  cases hm : s.cfg.mode with
  | fifo => simp only [hm]; exact List.take_append_of_le_length hk
  | lifo =>
    simp only [hm, pyInsert_length]
    have : s.ready.length + 1 - s.resEv.length = (s.ready.length - s.resEv.length) + 1 := by omega
    rw [this]
    exact drop_succ_pyInsert s.ready (s.ready.length - s.resEv.length) e (by omega)

theorem arrive_ready_perm (s : BufStore) (e : BEntry) : (s.arrive e).ready.Perm (e :: s.ready) := by
  unfold arrive
  cases s.cfg.mode with
  | fifo => simpa using List.perm_append_singleton e s.ready
  | lifo => exact pyInsert_perm _ _ _

theorem move_core {s : BufStore} (h : Core s) {e : BEntry} (he : e ∈ s.transit) :
    Core (s.move e) ∧ (s.move e).transit = s.transit.erase e ∧ (s.move e).timers = s.timers := by
  unfold move
  rw [if_pos (moveRoom_of_transit h.toPre he)]
  have hrp := arrive_ready_perm s e
  have hl : (s.transit.erase e).length + 1 = s.transit.length := by
    have : 0 < s.transit.length := List.length_pos_of_mem he
    rw [List.length_erase_of_mem he]; omega
  have hrl : (s.arrive e).ready.length = s.ready.length + 1 := by simpa using hrp.length_eq
  have hin : (inside (s.arrive e)).Perm (inside s) := by
    unfold inside
    have h1 : (s.arrive e).transit = s.transit.erase e := by simp [arrive]
    rw [h1]
    have h2 : (s.transit.erase e ++ (s.arrive e).ready).Perm (s.transit.erase e ++ e :: s.ready) :=
      List.Perm.append_left _ hrp
    refine h2.trans ?_
    refine List.perm_middle.trans ?_
    have h3 : (e :: s.transit.erase e).Perm s.transit := (List.perm_cons_erase he).symm
    exact List.Perm.append_right _ h3
  have hpre : Pre (s.arrive e) := by
    obtain ⟨⟨a, b, c, f, g, i, j, k, l, m⟩, _, _⟩ := h
    refine ⟨?_, by simpa [arrive, allToks] using b, by simpa [arrive, allToks] using c, by simpa [arrive] using f,
      by simpa [arrive] using g, ?_, ?_, ?_, by simpa [arrive] using l, ?_⟩
    · intro c' hc'
      have hc'' : s.cfg.cap = some c' := by simpa [arrive] using hc'
      have := a c' hc''
      simp only [level] at this ⊢
      rw [hrl]; simp only [arrive]; omega
    · rw [hrl]; simp only [arrive]; omega
    · rw [arrive_resPart e i]; simpa [arrive] using j
    · unfold Distinct at *; exact ((hin.map _).nodup_iff).mpr k
    · have : (s.arrive e).gotLog = s.gotLog := by simp [arrive]
      have hp : (s.arrive e).putLog = s.putLog := by simp [arrive]
      rw [this, hp]
      exact (List.Perm.append_left _ (hin.map _)).trans m
  have hwp : WakePut (s.arrive e) := by
    have := h.wakePut
    unfold WakePut admits level at *
    rw [hrl]
    simp only [arrive] at *
    intro hq
    have := this hq
    cases hc : s.cfg.cap with
    | none => simp [hc] at this
    | some c =>
      simp only [hc] at this ⊢
      have := of_decide_eq_false this
      apply decide_eq_false; omega
  have hpre2 := trigGet_pre hpre
  refine ⟨⟨trigPut_pre hpre2, trigPut_wakePut ?_ ?_, trigPut_wakeGet (trigGet_wakeGet hpre ?_)⟩, by simp [arrive], by simp [arrive]⟩
  · intro t q hq _ c hc
    have hwp2 := trigGet_wakePut hwp
    have := full_of_waiting hwp2 (by rw [hq]; simp) c hc
    omega
  · intro hc
    have hwp2 := trigGet_wakePut hwp
    rw [putQ_nil_of_inf hwp2 hc]; simp
  · intro t q hq _
    have hq' : s.getQ = t :: q := by simpa [arrive] using hq
    have := h.wakeGet (by rw [hq']; simp)
    rw [hrl]; simp only [arrive]; omega


/-! ### time steps -/

theorem fireAll_core (es : List BEntry) {s : BufStore} (h : Core s) (hp : (es ++ s.timers).Perm s.transit) :
    Core (fireAll es s) ∧ (fireAll es s).timers.Perm (fireAll es s).transit := by
  induction es generalizing s with
  | nil => exact ⟨h, by simpa [fireAll] using hp⟩
  | cons e es ih =>
    have he : e ∈ s.transit := hp.mem_iff.mp (by simp)
    have hc := setNow_core (max s.now e.due) h
    have hm := move_core hc (e := e) (by simpa [setNow] using he)
    unfold fireAll
    refine ih hm.1 ?_
    rw [hm.2.2, hm.2.1]
    simp only [setNow]
    have := hp.erase e
    simpa using this

theorem filter_split_perm (l : List BEntry) (p : BEntry → Bool) :
    (l.filter p ++ l.filter (fun e => !p e)).Perm l := by
  induction l with
  | nil => simp
  | cons x xs ih =>
    by_cases hx : p x
    · simp [List.filter_cons, hx]; exact ih
    · simp [List.filter_cons, hx]
      exact List.perm_middle.trans (List.Perm.cons x ih)

theorem adv_binv {s : BufStore} (dt : Nat) (h : BInv s) : BInv (s.adv dt) := by
  unfold adv
  split
  · exact h
  · have hc : Core { s with timers := s.timers.filter (fun e => !(decide (e.due < s.now + dt))) } :=
      core_of_eq h.toCore rfl rfl rfl rfl rfl rfl rfl rfl rfl rfl rfl rfl rfl
    have hp := (filter_split_perm s.timers (fun e => decide (e.due < s.now + dt))).trans h.timers
    have := fireAll_core (s.timers.filter (fun e => decide (e.due < s.now + dt))) hc (by simpa using hp)
    exact ⟨setNow_core _ this.1, by simpa [setNow] using this.2⟩

theorem settle_binv {s : BufStore} (h : BInv s) : BInv s.settle := by
  unfold settle
  have hc : Core { s with timers := s.timers.filter (fun e => !(decide (e.due ≤ s.now))) } :=
    core_of_eq h.toCore rfl rfl rfl rfl rfl rfl rfl rfl rfl rfl rfl rfl rfl
  have hp := (filter_split_perm s.timers (fun e => decide (e.due ≤ s.now))).trans h.timers
  have := fireAll_core (s.timers.filter (fun e => decide (e.due ≤ s.now))) hc (by simpa using hp)
  exact ⟨this.1, this.2⟩

theorem kstep_binv {s : BufStore} (h : BInv s) : BInv s.kstep := by
  unfold kstep
  split
  · exact h
  · rename_i e es hts
    split
    · have hc : Core { s with timers := es } := core_of_eq h.toCore rfl rfl rfl rfl rfl rfl rfl rfl rfl rfl rfl rfl rfl
      have hp := h.timers; rw [hts] at hp
      have he : e ∈ s.transit := hp.mem_iff.mp (by simp)
      have hm := move_core hc (e := e) (by simpa using he)
      refine ⟨hm.1, ?_⟩
      rw [hm.2.2, hm.2.1]
      have := hp.erase e
      simpa using this
    · exact h

theorem clearFired_binv {s : BufStore} (h : BInv s) : BInv { s with fired := [] } :=
  ⟨clearFired_core h.toCore, h.timers⟩

theorem step_binv {s : BufStore} (op : Op) (h : BInv s) (hok : OpOK s op) : BInv (s.step op).1 := by
  have h' := clearFired_binv h
  unfold step
  cases op with
  | reservePut p =>
    refine ⟨reservePut_core p h'.toCore, ?_⟩
    simp [reservePut]; exact h.timers
  | reserveGet p =>
    refine ⟨reserveGet_core p h'.toCore, ?_⟩
    simp [reserveGet]; exact h.timers
  | put p t x d =>
    have := put_core p t x d h'.toCore (by simpa [OpOK, inside] using hok)
    refine ⟨this.1, ?_⟩
    rcases this.2 with h2 | h2
    · exact h2
    · exact absurd h.timers h2
  | get p t =>
    have := get_core p t h'.toCore
    refine ⟨this.1, ?_⟩
    rw [this.2.1, this.2.2]; exact h.timers
  | cancelPut t =>
    refine ⟨cancelPut_core t h'.toCore, ?_⟩
    simp only [cancelPut]
    split
    · simp; exact h.timers
    · split <;> simp [dropPutRes] <;> exact h.timers
  | cancelGet t =>
    have := cancelGet_core t h'.toCore
    refine ⟨this.1, ?_⟩
    rw [this.2.1, this.2.2]; exact h.timers
  | adv dt => exact adv_binv dt h'
  | settle => exact settle_binv h'
  | kstep => exact kstep_binv h'
  | final => exact ⟨updLevel_core h'.toCore, by simp [final]; exact h.timers⟩

theorem init_binv (cfg : BufCfg) : BInv (init cfg) := by
  refine ⟨⟨⟨?_, ?_, ?_, ?_, ?_, ?_, ?_, ?_, ?_, ?_⟩, ?_, ?_⟩, ?_⟩ <;>
    simp [init, allToks, level, resPart, Distinct, inside, WakePut, WakeGet]
  cases cfg.mode <;> simp

/-- States reachable while the client never stores an object that is still inside. -/
inductive ReachD : BufStore → Prop where
  | init (cfg : BufCfg) : ReachD (init cfg)
  | step {s : BufStore} (op : Op) : ReachD s → OpOK s op → ReachD (s.step op).1

theorem reachD_binv {s : BufStore} (h : ReachD s) : BInv s := by
  induction h with
  | init cfg => exact init_binv cfg
  | step op _ hok ih => exact step_binv op ih hok

end BufStore
end FsVerif
