/-
Inductive invariant of the BufferStore model (both modes), under the discipline that an object
is not stored while it is still inside (a flow item is in one place at a time).
-/
import FsVerif.Proofs.BufStore
import FsVerif.Proofs.PosInv
namespace FsVerif
namespace BufStore

open PosStore (perm_move perm_cons_eraseIdx length_eraseIdx_lt)

def inside (s : BufStore) : List BEntry := s.transit ++ s.ready
def allToks (s : BufStore) : List Tok := s.putQ ++ s.putRes ++ s.getQ ++ s.getRes

/-- entries inside hold pairwise different objects -/
def Distinct (s : BufStore) : Prop := ((inside s).map (·.item.id)).Nodup

/-- the part of `ready_items` the reserved items must occupy -/
def resPart (s : BufStore) : List BEntry :=
  match s.cfg.mode with
  | .fifo => s.ready.take s.resEv.length
  | .lifo => s.ready.drop (s.ready.length - s.resEv.length)

/-- everything except the two wake-up conditions (those are re-established by the triggers) -/
structure Pre (s : BufStore) : Prop where
  cap : ∀ c, s.cfg.cap = some c → s.putRes.length + s.level ≤ c
  tokNd : ((allToks s).map Tok.id).Nodup
  tokLt : ∀ t ∈ allToks s, t.id < s.nextTid
  bindEv : s.resEv.Perm s.getRes
  bindLen : s.resEv.length = s.resItems.length
  bindLe : s.resEv.length ≤ s.ready.length
  bindItems : s.resItems.Perm (resPart s)
  dist : Distinct s
  alive : s.crashed = false
  cons : (s.gotLog ++ (inside s).map (·.item)).Perm s.putLog

def WakePut (s : BufStore) : Prop := s.putQ ≠ [] → s.admits = false
def WakeGet (s : BufStore) : Prop := s.getQ ≠ [] → s.ready.length ≤ s.getRes.length

structure Core (s : BufStore) : Prop extends Pre s where
  wakePut : WakePut s
  wakeGet : WakeGet s

structure BInv (s : BufStore) : Prop extends Core s where
  timers : s.timers.Perm s.transit

/-- the discipline: an object is put only while it is not inside -/
def OpOK (s : BufStore) : Op → Prop
  | .put _ _ x _ => hasItem (inside s) x = false
  | _ => True

/-! ### small facts -/

theorem nodup_of_nodup_map {α β} {f : α → β} {l : List α} (h : (l.map f).Nodup) : l.Nodup := by
  induction l with
  | nil => simp
  | cons x xs ih =>
    simp only [List.map_cons, List.nodup_cons] at h ⊢
    exact ⟨fun hm => h.1 (List.mem_map.mpr ⟨x, hm, rfl⟩), ih h.2⟩

theorem dist_nodup {s : BufStore} (h : Distinct s) : (inside s).Nodup := by
  unfold Distinct at h
  exact nodup_of_nodup_map h

theorem ready_nodup {s : BufStore} (h : Distinct s) : s.ready.Nodup := by
  have := nodup_of_nodup_map h
  unfold inside at this
  exact (List.nodup_append.mp this).2.1

theorem ready_ids_nodup {s : BufStore} (h : Distinct s) : (s.ready.map (·.item.id)).Nodup := by
  unfold Distinct inside at h
  rw [List.map_append] at h
  exact (List.nodup_append.mp h).2.1

theorem removeItem_eq_erase {s : BufStore} (h : Distinct s) {e : BEntry} (he : e ∈ s.ready) :
    removeItem s.ready e.item = s.ready.erase e := by
  unfold removeItem
  exact findIdx_eraseIdx_eq_erase (fun x : BEntry => x.item.id) (ready_ids_nodup h) he

theorem hasItem_of_mem {l : List BEntry} {e : BEntry} (he : e ∈ l) : hasItem l e.item = true := by
  unfold hasItem
  exact List.any_eq_true.mpr ⟨e, he, by simp⟩

theorem resPart_sub {s : BufStore} : ∀ e ∈ resPart s, e ∈ s.ready := by
  intro e he
  unfold resPart at he
  split at he
  · exact List.mem_of_mem_take he
  · exact List.mem_of_mem_drop he

theorem resItems_sub {s : BufStore} (h : Pre s) : ∀ e ∈ s.resItems, e ∈ s.ready :=
  fun e he => resPart_sub e (h.bindItems.mem_iff.mp he)

/-! ### generic frame rule: fields that the invariants do not read -/

theorem pre_of_eq {s s' : BufStore} (h : Pre s)
    (e1 : s'.cfg = s.cfg) (e2 : s'.nextTid = s.nextTid) (e3 : s'.transit = s.transit) (e4 : s'.ready = s.ready)
    (e5 : s'.putQ = s.putQ) (e6 : s'.putRes = s.putRes) (e7 : s'.getQ = s.getQ) (e8 : s'.getRes = s.getRes)
    (e9 : s'.resEv = s.resEv) (e10 : s'.resItems = s.resItems) (e11 : s'.crashed = s.crashed)
    (e12 : s'.putLog = s.putLog) (e13 : s'.gotLog = s.gotLog) : Pre s' := by
  obtain ⟨a, b, c, f, g, i, j, k, l, m⟩ := h
  constructor <;>
    simp only [allToks, level, inside, Distinct, resPart, e1, e2, e3, e4, e5, e6, e7, e8, e9, e10, e11, e12, e13] at * <;>
    assumption

theorem core_of_eq {s s' : BufStore} (h : Core s)
    (e1 : s'.cfg = s.cfg) (e2 : s'.nextTid = s.nextTid) (e3 : s'.transit = s.transit) (e4 : s'.ready = s.ready)
    (e5 : s'.putQ = s.putQ) (e6 : s'.putRes = s.putRes) (e7 : s'.getQ = s.getQ) (e8 : s'.getRes = s.getRes)
    (e9 : s'.resEv = s.resEv) (e10 : s'.resItems = s.resItems) (e11 : s'.crashed = s.crashed)
    (e12 : s'.putLog = s.putLog) (e13 : s'.gotLog = s.gotLog) : Core s' := by
  refine ⟨pre_of_eq h.toPre e1 e2 e3 e4 e5 e6 e7 e8 e9 e10 e11 e12 e13, ?_, ?_⟩
  · have := h.wakePut; unfold WakePut admits level at *; rw [e1, e3, e4, e5, e6]; exact this
  · have := h.wakeGet; unfold WakeGet at *; rw [e4, e7, e8]; exact this

theorem updLevel_core {s : BufStore} (h : Core s) : Core s.updLevel :=
  core_of_eq h (by simp) (by simp) (by simp) (by simp) (by simp) (by simp) (by simp) (by simp) (by simp) (by simp) (by simp) (by simp) (by simp)

theorem updLevel_pre {s : BufStore} (h : Pre s) : Pre s.updLevel :=
  pre_of_eq h (by simp) (by simp) (by simp) (by simp) (by simp) (by simp) (by simp) (by simp) (by simp) (by simp) (by simp) (by simp) (by simp)

theorem setNow_core {s : BufStore} (d : Nat) (h : Core s) : Core (s.setNow d) :=
  core_of_eq h rfl rfl rfl rfl rfl rfl rfl rfl rfl rfl rfl rfl rfl

theorem clearFired_core {s : BufStore} (h : Core s) : Core { s with fired := [] } :=
  core_of_eq h rfl rfl rfl rfl rfl rfl rfl rfl rfl rfl rfl rfl rfl

/-! ### trigPut -/

theorem trigPut_allToks (s : BufStore) : (allToks s.trigPut).Perm (allToks s) := by
  rcases trigPut_cases s with ⟨he, _⟩ | ⟨t, q, hq, ha, he⟩
  · rw [he]
  · rw [he]; unfold allToks; simp only [hq]
    refine List.Perm.append_right _ (List.Perm.append_right _ ?_)
    simpa using perm_move q s.putRes t

theorem trigPut_pre {s : BufStore} (h : Pre s) : Pre s.trigPut := by
  obtain ⟨a, b, c, f, g, i, j, k, l, m⟩ := h
  have hp := trigPut_allToks s
  refine ⟨?_, ((hp.map Tok.id).nodup_iff).mpr b, fun t' ht' => by simpa using c t' (hp.mem_iff.mp ht'),
    by simpa using f, by simpa using g, by simpa using i, ?_, ?_, by simpa using l, ?_⟩
  · rcases trigPut_cases s with ⟨he, _⟩ | ⟨t, q, hq, ha, he⟩
    · rw [he]; exact a
    · rw [he]; intro c' hc'
      have := (admits_iff s).mp ha c' hc'
      simp [level] at this ⊢; omega
  · unfold resPart at *; simpa using j
  · unfold Distinct inside at *; simpa using k
  · unfold inside at *; simpa using m

theorem trigPut_wakePut {s : BufStore}
    (hw : ∀ t q, s.putQ = t :: q → q ≠ [] → ∀ c, s.cfg.cap = some c → c ≤ s.putRes.length + s.level + 1)
    (hinf : s.cfg.cap = none → s.putQ.length ≤ 1) : WakePut s.trigPut := by
  rcases trigPut_cases s with ⟨he, hq | hna⟩ | ⟨t, q, hq, ha, he⟩
  · rw [he]; intro hne; exact absurd hq hne
  · rw [he]; intro _; exact hna
  · rw [he]; intro hne
    simp only at hne
    unfold admits; simp only
    cases hc : s.cfg.cap with
    | none =>
      have := hinf hc; rw [hq] at this
      cases q with
      | nil => exact absurd rfl hne
      | cons _ _ => simp at this
    | some c' =>
      have := hw t q hq hne c' hc
      simp [level] at this ⊢; omega

theorem trigPut_wakeGet {s : BufStore} (h : WakeGet s) : WakeGet s.trigPut := by
  unfold WakeGet at *; simpa using h

theorem full_of_waiting {s : BufStore} (h : WakePut s) (hq : s.putQ ≠ []) :
    ∀ c, s.cfg.cap = some c → c ≤ s.putRes.length + s.level := by
  intro c hc
  have := h hq; unfold admits at this; rw [hc] at this; simpa using this

theorem putQ_nil_of_inf {s : BufStore} (h : WakePut s) (hc : s.cfg.cap = none) : s.putQ = [] := by
  by_cases hq : s.putQ = []
  · exact hq
  · have := h hq; unfold admits at this; rw [hc] at this; simp at this

/-- `trigPut` on a state where the space side is already settled. -/
theorem trigPut_core_settled {s : BufStore} (h : Core s) : Core s.trigPut := by
  refine ⟨trigPut_pre h.toPre, trigPut_wakePut ?_ ?_, trigPut_wakeGet h.wakeGet⟩
  · intro t q hq _ c hc
    have := full_of_waiting h.wakePut (by rw [hq]; simp) c hc; omega
  · intro hc; rw [putQ_nil_of_inf h.wakePut hc]; simp

/-! ### trigGet -/

theorem bindIdx_some {s : BufStore} (hk : s.resEv.length < s.ready.length) :
    ∃ e, s.bindIdx.bind (fun i => s.ready[i]?) = some e ∧
      (match s.cfg.mode with
       | .fifo => s.ready.take (s.resEv.length + 1) = s.ready.take s.resEv.length ++ [e]
       | .lifo => s.ready.drop (s.ready.length - (s.resEv.length + 1)) = e :: s.ready.drop (s.ready.length - s.resEv.length)) := by
  unfold bindIdx
  cases hm : s.cfg.mode with
  | fifo =>
    refine ⟨s.ready[s.resEv.length], by simp [hk], ?_⟩
    simp only
    exact List.take_succ_eq_append_getElem hk
  | lifo =>
    have hi : s.ready.length - 1 - s.resEv.length < s.ready.length := by omega
    refine ⟨s.ready[s.ready.length - 1 - s.resEv.length], by simp [hk, hi], ?_⟩
    simp only
    have := List.drop_eq_getElem_cons hi
    have e1 : s.ready.length - (s.resEv.length + 1) = s.ready.length - 1 - s.resEv.length := by omega
    have e2 : s.ready.length - 1 - s.resEv.length + 1 = s.ready.length - s.resEv.length := by omega
    rw [e1, this, e2]

theorem trigGet_allToks (s : BufStore) (_hl : s.resEv.length = s.getRes.length) (_hle : s.resEv.length ≤ s.ready.length) :
    (allToks s.trigGet).Perm (allToks s) := by
  rcases trigGet_cases s with ⟨he, _⟩ | ⟨t, q, e, hq, hs, hb, he⟩ | ⟨t, q, hq, hs, hb, he⟩
  · rw [he]
  · rw [he]; unfold allToks; simp only [hq, List.append_assoc]
    refine List.Perm.append_left _ (List.Perm.append_left _ ?_)
    simpa using perm_move q s.getRes t
  · rw [he]; unfold allToks; simp only [hq, List.append_assoc]
    refine List.Perm.append_left _ (List.Perm.append_left _ ?_)
    simpa using perm_move q s.getRes t

theorem trigGet_pre {s : BufStore} (h : Pre s) : Pre s.trigGet := by
  have hlenEv : s.resEv.length = s.getRes.length := h.bindEv.length_eq
  have hp := trigGet_allToks s hlenEv h.bindLe
  rcases trigGet_cases s with ⟨he, hq⟩ | ⟨t, q, e, hq, hs, hb, he⟩ | ⟨t, q, hq, hs, hb, he⟩
  · rw [he]; exact h
  · rw [he] at hp ⊢
    have hlt : s.resEv.length < s.ready.length := by have := (serves_iff s).mp hs; omega
    obtain ⟨e', he', hpart⟩ := bindIdx_some hlt
    rw [hb] at he'; cases he'
    obtain ⟨a, b, c, f, g, i, j, k, l, m⟩ := h
    refine ⟨a, ((hp.map Tok.id).nodup_iff).mpr b, fun t' ht' => c t' (hp.mem_iff.mp ht'),
      List.Perm.append_right _ f, by simp [g], by simp; omega, ?_, k, l, m⟩
    unfold resPart at j ⊢
    simp only [List.length_append, List.length_cons, List.length_nil]
    cases hm : s.cfg.mode with
    | fifo =>
      simp only [hm] at j hpart ⊢
      rw [hpart]; exact List.Perm.append_right _ j
    | lifo =>
      simp only [hm] at j hpart ⊢
      have e1 : s.resEv.length + 0 + 1 = s.resEv.length + 1 := by omega
      rw [e1, hpart]
      exact (List.perm_append_singleton e s.resItems).trans (List.Perm.cons e j)
  · exfalso
    have hlt : s.resEv.length < s.ready.length := by have := (serves_iff s).mp hs; omega
    obtain ⟨e', he', _⟩ := bindIdx_some hlt
    rw [hb] at he'; cases he'

theorem trigGet_wakeGet {s : BufStore} (h : Pre s)
    (hw : ∀ t q, s.getQ = t :: q → q ≠ [] → s.ready.length ≤ s.getRes.length + 1) : WakeGet s.trigGet := by
  have hlenEv : s.resEv.length = s.getRes.length := h.bindEv.length_eq
  rcases trigGet_cases s with ⟨he, hq⟩ | ⟨t, q, e, hq, hs, hb, he⟩ | ⟨t, q, hq, hs, hb, he⟩
  · rw [he]; intro hne
    rcases hq with hq | hq
    · exact absurd hq hne
    · have : ¬ s.getRes.length < s.ready.length := fun hlt => by
        rw [(serves_iff s).mpr hlt] at hq; simp at hq
      omega
  · rw [he]; intro hne
    simp only at hne ⊢
    have := hw t q hq hne
    simp; omega
  · rw [he]; intro hne
    simp only at hne ⊢
    have := hw t q hq hne
    simp; omega

theorem trigGet_wakePut {s : BufStore} (h : WakePut s) : WakePut s.trigGet := by
  unfold WakePut admits at *; simpa using h

theorem trigGet_core_settled {s : BufStore} (h : Core s) : Core s.trigGet := by
  refine ⟨trigGet_pre h.toPre, trigGet_wakePut h.wakePut, trigGet_wakeGet h.toPre ?_⟩
  intro t q hq _
  have := h.wakeGet (by rw [hq]; simp); omega


/-! ### reserve_put / reserve_get -/

theorem reservePut_core {s : BufStore} (p : Nat) (h : Core s) : Core (s.reservePut p).1 := by
  unfold reservePut
  simp only
  generalize ht : ({ id := s.nextTid, proc := p } : Tok) = t
  have hid : t.id = s.nextTid := by rw [← ht]
  have hp : (allToks { s with nextTid := s.nextTid + 1, putQ := s.putQ ++ [t] }).Perm (t :: allToks s) := by
    unfold allToks; simp only [List.append_assoc]
    have : (s.putQ ++ (t :: (s.putRes ++ (s.getQ ++ s.getRes)))).Perm (t :: (s.putQ ++ (s.putRes ++ (s.getQ ++ s.getRes)))) := List.perm_middle
    simpa using this
  have hpre : Pre { s with nextTid := s.nextTid + 1, putQ := s.putQ ++ [t] } := by
    obtain ⟨⟨a, b, c, f, g, i, j, k, l, m⟩, _, _⟩ := h
    refine ⟨a, ?_, ?_, f, g, i, j, k, l, m⟩
    · refine ((hp.map Tok.id).nodup_iff).mpr ?_
      simp only [List.map_cons, List.nodup_cons]
      refine ⟨?_, b⟩
      intro hm
      obtain ⟨a', ha', hea⟩ := List.mem_map.mp hm
      have := c a' ha'; omega
    · intro t' ht'
      rcases List.mem_cons.mp (hp.mem_iff.mp ht') with rfl | ht'
      · simp [hid]
      · have := c t' ht'; simp; omega
  refine ⟨trigPut_pre hpre, trigPut_wakePut ?_ ?_, trigPut_wakeGet h.wakeGet⟩
  · intro t' q hq hne c hc
    simp only [level] at hq hc ⊢
    by_cases hs : s.putQ = []
    · rw [hs] at hq; simp at hq; exact absurd hq.2 hne
    · have := full_of_waiting h.wakePut hs c hc; simp [level] at this; omega
  · intro hc
    simp only at hc ⊢
    rw [putQ_nil_of_inf h.wakePut hc]; simp

theorem reserveGet_core {s : BufStore} (p : Nat) (h : Core s) : Core (s.reserveGet p).1 := by
  unfold reserveGet
  simp only
  generalize ht : ({ id := s.nextTid, proc := p } : Tok) = t
  have hid : t.id = s.nextTid := by rw [← ht]
  have hp : (allToks { s with nextTid := s.nextTid + 1, getQ := s.getQ ++ [t] }).Perm (t :: allToks s) := by
    unfold allToks; simp only [List.append_assoc]
    have h1 : (s.getQ ++ ([t] ++ s.getRes)).Perm (t :: (s.getQ ++ s.getRes)) := by simpa using List.perm_middle
    have h2 : (s.putQ ++ (s.putRes ++ (s.getQ ++ ([t] ++ s.getRes)))).Perm (s.putQ ++ (s.putRes ++ t :: (s.getQ ++ s.getRes))) :=
      List.Perm.append_left _ (List.Perm.append_left _ h1)
    refine h2.trans ?_
    have h3 : (s.putRes ++ t :: (s.getQ ++ s.getRes)).Perm (t :: (s.putRes ++ (s.getQ ++ s.getRes))) := List.perm_middle
    exact (List.Perm.append_left _ h3).trans List.perm_middle
  have hpre : Pre { s with nextTid := s.nextTid + 1, getQ := s.getQ ++ [t] } := by
    obtain ⟨⟨a, b, c, f, g, i, j, k, l, m⟩, _, _⟩ := h
    refine ⟨a, ?_, ?_, f, g, i, j, k, l, m⟩
    · refine ((hp.map Tok.id).nodup_iff).mpr ?_
      simp only [List.map_cons, List.nodup_cons]
      refine ⟨?_, b⟩
      intro hm
      obtain ⟨a', ha', hea⟩ := List.mem_map.mp hm
      have := c a' ha'; omega
    · intro t' ht'
      rcases List.mem_cons.mp (hp.mem_iff.mp ht') with rfl | ht'
      · simp [hid]
      · have := c t' ht'; simp; omega
  refine ⟨trigGet_pre hpre, trigGet_wakePut h.wakePut, trigGet_wakeGet hpre ?_⟩
  intro t' q hq hne
  simp only at hq ⊢
  by_cases hs : s.getQ = []
  · rw [hs] at hq; simp at hq; exact absurd hq.2 hne
  · have := h.wakeGet hs; omega

/-! ### put -/

@[simp] theorem insTimer_perm (e : BEntry) (l : List BEntry) : (insTimer e l).Perm (e :: l) := by
  induction l with
  | nil => simp [insTimer]
  | cons x xs ih =>
    unfold insTimer
    split
    · exact List.Perm.refl _
    · exact (List.Perm.cons x ih).trans (List.Perm.swap e x xs)

theorem capRoom_of_granted {s : BufStore} (h : Pre s) {t : Tok} (ht : t ∈ s.putRes) :
    (s.dropPutRes t).capRoom = true := by
  unfold capRoom
  cases hc : s.cfg.cap with
  | none => simp [dropPutRes, hc]
  | some c =>
    have := h.cap c hc
    have hl : 0 < s.putRes.length := List.length_pos_of_mem ht
    simp only [dropPutRes, hc, level] at this ⊢
    apply decide_eq_true
    omega

theorem put_cases (s : BufStore) (p tid : Nat) (x : Item) (d : Nat) :
    (s.put p tid x d = (s, .err .runtime) ∧ ∀ t ∈ s.putRes, ¬ (t.id = tid ∧ t.proc = p)) ∨
    (∃ t, t ∈ s.putRes ∧ t.id = tid ∧ t.proc = p ∧
      (((s.dropPutRes t).capRoom = true ∧
        s.put p tid x d = (((((s.dropPutRes t).addItem x d).updLevel).trigGet), .ok)) ∨
       ((s.dropPutRes t).capRoom = false ∧ s.put p tid x d = (s.dropPutRes t, .err .runtime)))) := by
  unfold put
  split
  · left; refine ⟨rfl, ?_⟩
    intro t ht; simp_all
  · split
    · rename_i hnone
      left; refine ⟨rfl, ?_⟩
      intro t ht hc
      have := List.find?_eq_none.mp hnone t ht
      simp [hc.1, hc.2] at this
    · rename_i t hsome
      right
      have hm := List.mem_of_find?_eq_some hsome
      have hp := List.find?_some hsome
      simp at hp
      refine ⟨t, hm, hp.1, hp.2, ?_⟩
      split
      · left; exact ⟨by assumption, rfl⟩
      · right; exact ⟨by simp_all, rfl⟩

theorem put_core {s : BufStore} (p tid x d) (h : Core s) (hok : hasItem (inside s) x = false) :
    Core (s.put p tid x d).1 ∧
    ((s.put p tid x d).1.timers.Perm ((s.put p tid x d).1.transit) ∨ ¬ s.timers.Perm s.transit) := by
  rcases put_cases s p tid x d with ⟨he, _⟩ | ⟨t, ht, _, _, ⟨hroom, he⟩ | ⟨hroom, he⟩⟩
  · rw [he]; exact ⟨h, by by_cases hh : s.timers.Perm s.transit <;> simp [hh]⟩
  · rw [he]; simp only
    have hl : 0 < s.putRes.length := List.length_pos_of_mem ht
    have hlen : (s.putRes.erase t).length + 1 = s.putRes.length := by
      rw [List.length_erase_of_mem ht]; omega
    obtain ⟨⟨a, b, c, f, g, i, j, k, l, m⟩, wp, wg⟩ := h
    have hpre : Pre ((s.dropPutRes t).addItem x d) := by
      refine ⟨?_, ?_, ?_, f, g, i, ?_, ?_, l, ?_⟩
      · intro c' hc'
        simp [addItem, dropPutRes, level] at hc' ⊢
        have := a c' hc'; simp [level] at this; omega
      · have hsub : (allToks ((s.dropPutRes t).addItem x d)).Sublist (allToks s) := by
          unfold allToks; simp only [addItem, dropPutRes]
          exact List.Sublist.append (List.Sublist.append (List.Sublist.append (List.Sublist.refl _) List.erase_sublist) (List.Sublist.refl _)) (List.Sublist.refl _)
        exact (hsub.map _).nodup b
      · intro t' ht'
        have hsub : (allToks ((s.dropPutRes t).addItem x d)).Sublist (allToks s) := by
          unfold allToks; simp only [addItem, dropPutRes]
          exact List.Sublist.append (List.Sublist.append (List.Sublist.append (List.Sublist.refl _) List.erase_sublist) (List.Sublist.refl _)) (List.Sublist.refl _)
        have := c t' (hsub.subset ht'); simpa [addItem, dropPutRes] using this
      · unfold resPart at *; simpa [addItem, dropPutRes] using j
      · unfold Distinct inside at *
        simp only [addItem, dropPutRes, List.map_append, List.map_cons, List.map_nil, List.append_assoc]
        have hnot : x.id ∉ (s.transit ++ s.ready).map (·.item.id) := by
          intro hm
          obtain ⟨e, he1, he2⟩ := List.mem_map.mp hm
          unfold hasItem at hok
          have := List.any_eq_false.mp hok e he1
          simp [he2] at this
        have hperm : (s.transit.map (·.item.id) ++ (x.id :: s.ready.map (·.item.id))).Perm
            (x.id :: (s.transit ++ s.ready).map (·.item.id)) := by
          simpa using (List.perm_middle (a := x.id) (l₁ := s.transit.map (·.item.id)) (l₂ := s.ready.map (·.item.id)))
        refine hperm.nodup_iff.mpr ?_
        exact List.nodup_cons.mpr ⟨hnot, k⟩
      · unfold inside at *
        simp only [addItem, dropPutRes, List.map_append, List.map_cons, List.map_nil, List.append_assoc]
        have h1 : (s.gotLog ++ (s.transit.map (·.item) ++ (x :: s.ready.map (·.item)))).Perm
            (s.gotLog ++ (s.transit.map (·.item) ++ s.ready.map (·.item)) ++ [x]) := by
          have : (s.transit.map (·.item) ++ (x :: s.ready.map (·.item))).Perm
              ((s.transit.map (·.item) ++ s.ready.map (·.item)) ++ [x]) := by
            refine List.perm_middle.trans ?_
            exact (List.perm_append_singleton x _).symm
          simpa using List.Perm.append_left s.gotLog this
        refine h1.trans ?_
        have := List.Perm.append_right [x] (by simpa using m : (s.gotLog ++ (s.transit.map (·.item) ++ s.ready.map (·.item))).Perm s.putLog)
        simpa using this
    refine ⟨⟨trigGet_pre (updLevel_pre hpre), trigGet_wakePut ?_, trigGet_wakeGet (updLevel_pre hpre) ?_⟩, ?_⟩
    · unfold WakePut admits at *
      intro hq
      have := wp (by simpa [addItem, dropPutRes] using hq)
      cases hc : s.cfg.cap with
      | none => simp [hc] at this
      | some c' =>
        simp only [hc, level] at this
        have this' := of_decide_eq_false this
        simp only [updLevel_cfg, updLevel_putRes, updLevel_transit, updLevel_ready, addItem, dropPutRes, hc, level,
          List.length_append, List.length_cons, List.length_nil]
        apply decide_eq_false
        omega
    · intro t' q hq _
      simp only [updLevel_getQ, updLevel_ready, updLevel_getRes, addItem, dropPutRes] at hq ⊢
      have := wg (by rw [hq]; simp); omega
    · by_cases hh : s.timers.Perm s.transit
      · left
        simp only [trigGet_timers, trigGet_transit, updLevel_timers, updLevel_transit, addItem, dropPutRes]
        exact (insTimer_perm _ _).trans ((List.Perm.cons _ hh).trans (List.perm_append_singleton _ _).symm)
      · right; exact hh
  · exfalso
    rw [capRoom_of_granted h.toPre ht] at hroom
    exact absurd hroom (by simp)

end BufStore
end FsVerif
