/-
Invariants of the FleetStore model (Model/FleetStore.lean), for every operation sequence that keeps
the no-aliasing discipline (an object is loaded only while it is not inside).
-/
import FsVerif.Proofs.BufInv
import FsVerif.Proofs.BufPrio
import FsVerif.Model.FleetStore
namespace FsVerif
namespace FleetStore
open BufStore (Core)

/-! ### the event queue -/

def TimeSorted (q : List KEv) : Prop := q.Pairwise (fun a b => a.time ≤ b.time)

theorem mem_insEv {e x : KEv} {q : List KEv} : x ∈ insEv e q ↔ x = e ∨ x ∈ q := by
  induction q with
  | nil => simp [insEv]
  | cons y ys ih =>
    simp only [insEv]
    split
    · simp
    · simp only [List.mem_cons, ih]
      constructor
      · rintro (h | h | h)
        · exact Or.inr (Or.inl h)
        · exact Or.inl h
        · exact Or.inr (Or.inr h)
      · rintro (h | h | h)
        · exact Or.inr (Or.inl h)
        · exact Or.inl h
        · exact Or.inr (Or.inr h)

theorem before_time {a b : KEv} (h : a.before b = true) : a.time ≤ b.time := by
  unfold KEv.before at h
  simp only [Bool.or_eq_true, decide_eq_true_eq, Bool.and_eq_true, beq_iff_eq] at h
  rcases h with h | ⟨h, _⟩ <;> omega

theorem not_before_time {a b : KEv} (h : a.before b = false) : b.time ≤ a.time := by
  unfold KEv.before at h
  simp only [Bool.or_eq_false_iff, decide_eq_false_iff_not] at h
  omega

theorem insEv_sorted {e : KEv} {q : List KEv} (h : TimeSorted q) : TimeSorted (insEv e q) := by
  induction q with
  | nil => simp [insEv, TimeSorted]
  | cons y ys ih =>
    unfold TimeSorted at h ⊢
    simp only [insEv]
    rw [List.pairwise_cons] at h
    split
    · rename_i hb
      rw [List.pairwise_cons]
      refine ⟨?_, List.pairwise_cons.mpr h⟩
      intro z hz
      have h1 := before_time hb
      rcases List.mem_cons.mp hz with rfl | hz
      · exact h1
      · exact Nat.le_trans h1 (h.1 z hz)
    · rename_i hb
      have hb' : e.before y = false := by simpa using hb
      rw [List.pairwise_cons]
      refine ⟨?_, ih h.2⟩
      intro z hz
      rcases mem_insEv.mp hz with rfl | hz
      · exact not_before_time hb'
      · exact h.1 z hz


/-! ### the invariant: store part, clock discipline, trips -/

def EvTime (s : FleetStore) (ev : KEv) : Prop :=
  (∀ m, ev.kind = .init m → ∃ t ∈ s.departed, t.id = m ∧ ev.time = t.depart) ∧
  (∀ m, ev.kind = .tr1 m → ∃ t ∈ s.departed, t.id = m ∧ ev.time = t.depart + s.cfg.transit) ∧
  (∀ m, ev.kind = .tr2 m → ∃ t ∈ s.departed, t.id = m ∧ ev.time = t.depart + 2 * s.cfg.transit)

structure KT (s : FleetStore) : Prop where
  core : Core s.b
  cfgB : s.b.cfg = { cap := s.cfg.cap, mode := .fifo }
  tsorted : TimeSorted s.queue
  clock : ∀ ev ∈ s.queue, s.now ≤ ev.time
  sub : ∀ e ∈ s.inTransit, e ∈ s.b.transit
  tripsSub : ∀ t ∈ s.trips, ∀ e ∈ t.batch, e ∈ s.inTransit
  tripsDep : ∀ t ∈ s.trips, t ∈ s.departed
  idsLt : ∀ t ∈ s.departed, t.id < s.nextTrip
  idsNd : s.departed.Pairwise (fun a b => a.id ≠ b.id)
  evTime : ∀ ev ∈ s.queue, EvTime s ev
  dueLe : ∀ e ∈ s.b.transit, e.due ≤ s.now
  departLe : ∀ t ∈ s.departed, ∀ e ∈ t.batch, e.due ≤ t.depart
  readyOK : ∀ x ∈ s.readyAt, ∃ t ∈ s.departed, ∃ e ∈ t.batch, e.seq = x.1 ∧ x.2 = t.depart + 2 * s.cfg.transit
  seqLt : ∀ e ∈ s.b.transit, e.seq < s.b.putLog.length
  seqInj : ∀ e ∈ s.b.transit, ∀ e' ∈ s.b.transit, e.seq = e'.seq → e = e'
  upToLe : s.upTo ≤ s.b.putLog.length
  inNd : s.inTransit.Nodup
  inUp : ∀ e ∈ s.inTransit, e.seq < s.upTo
  upIn : ∀ e ∈ s.b.transit, e.seq < s.upTo → e ∈ s.inTransit
  tripRange : ∀ t ∈ s.trips, (∀ e ∈ t.batch, t.lo ≤ e.seq ∧ e.seq < t.hi) ∧ t.hi ≤ s.upTo ∧ t.batch.Nodup
  tripOrder : ∀ x ∈ s.trips, ∀ y ∈ s.trips, x.id < y.id → x.hi ≤ y.lo
  tripsId : ∀ x ∈ s.trips, ∀ y ∈ s.trips, x.id = y.id → x = y

theorem init_kt (cfg : FleetCfg) : KT (init cfg) := by
  refine ⟨(BufStore.init_binv _).toCore, rfl, by simp [init, TimeSorted], ?_, ?_, ?_, ?_, ?_, ?_, ?_, ?_, ?_, ?_,
    ?_, ?_, ?_, ?_, ?_, ?_, ?_, ?_, ?_⟩ <;>
    simp [init, now, BufStore.init, EvTime]

/-! ### frame facts of the embedded store's operations -/

def BFrame (b b' : BufStore) : Prop := b'.cfg = b.cfg ∧ b'.now = b.now ∧ b'.transit = b.transit ∧ b'.putLog = b.putLog

/-- a step that only touches the embedded store and leaves its item lists, clock and configuration alone -/
theorem KT.of_b {s : FleetStore} (h : KT s) (b' : BufStore) (hc : Core b') (hf : BFrame s.b b') : KT { s with b := b' } := by
  obtain ⟨h1, h3, h2, h4⟩ := hf
  obtain ⟨a1, a2, a3, a4, a5, a6, a7, a8, a9, a10, a11, a12, a13, a14, a15, a16, a17, a18, a19, a20, a21, a22⟩ := h
  refine ⟨hc, by rw [h1]; exact a2, a3, ?_, ?_, a6, a7, a8, a9, a10, ?_, a12, a13, ?_, ?_, ?_, a17, a18, ?_, a20, a21, a22⟩
  · intro ev hev; simp only [now, h3]; exact a4 ev hev
  · intro e he; simp only [h2]; exact a5 e he
  · intro e he; simp only [now, h3]; simp only [h2] at he; exact a11 e he
  · intro e he; simp only [h2] at he; simp only [h4]; exact a14 e he
  · intro e he e' he'; simp only [h2] at he he'; exact a15 e he e' he'
  · simp only [h4]; exact a16
  · intro e he; simp only [h2] at he; exact a19 e he

theorem reservePut_frame (b : BufStore) (p : Nat) : BFrame b (b.reservePut p).1 := by
  simp [BFrame, BufStore.reservePut]

theorem reserveGet_frame (b : BufStore) (p : Nat) : BFrame b (b.reserveGet p).1 := by
  simp [BFrame, BufStore.reserveGet]

theorem reservePutP_frame (b : BufStore) (p : Nat) (pr : Int) : BFrame b (b.reservePutP p pr).1 := by
  simp [BFrame, BufStore.reservePutP]

theorem reserveGetP_frame (b : BufStore) (p : Nat) (pr : Int) : BFrame b (b.reserveGetP p pr).1 := by
  simp [BFrame, BufStore.reserveGetP]

theorem get_frame (b : BufStore) (p tid : Nat) : BFrame b (b.get p tid).1 := by
  unfold BufStore.get BFrame
  repeat' split
  all_goals simp [BufStore.unbind, BufStore.takeEntry]

theorem cancelPut_frame (b : BufStore) (tid : Nat) : BFrame b (b.cancelPut tid).1 := by
  unfold BufStore.cancelPut BFrame
  repeat' split
  all_goals simp [BufStore.dropPutRes]

theorem cancelGet_frame (b : BufStore) (tid : Nat) : BFrame b (b.cancelGet tid).1 := by
  unfold BufStore.cancelGet BFrame
  repeat' split
  all_goals simp [BufStore.unbind, BufStore.release, BufStore.dropGetRes]

theorem KT.lift {s : FleetStore} (h : KT s) (r : BufStore × BufStore.Res) (hc : Core r.1) (hf : BFrame s.b r.1) :
    KT (s.liftB r).1 := h.of_b r.1 hc hf

theorem KT.congr {s s' : FleetStore} (h : KT s) (e1 : s'.b = s.b) (e2 : s'.cfg = s.cfg) (e3 : s'.queue = s.queue)
    (e4 : s'.inTransit = s.inTransit) (e5 : s'.trips = s.trips) (e6 : s'.departed = s.departed)
    (e7 : s'.nextTrip = s.nextTrip) (e8 : s'.readyAt = s.readyAt) (e9 : s'.upTo = s.upTo) : KT s' := by
  obtain ⟨a1, a2, a3, a4, a5, a6, a7, a8, a9, a10, a11, a12, a13, a14, a15, a16, a17, a18, a19, a20, a21, a22⟩ := h
  constructor <;> simp only [now, EvTime, e1, e2, e3, e4, e5, e6, e7, e8, e9] at * <;> assumption

theorem KT.sched {s : FleetStore} (h : KT s) (time : Nat) (urgent : Bool) (k : FKind) (ht : s.now ≤ time)
    (hk : EvTime s { time := time, urgent := urgent, seq := s.nextSeq, kind := k }) : KT (s.sched time urgent k) := by
  obtain ⟨a1, a2, a3, a4, a5, a6, a7, a8, a9, a10, a11, a12, a13, a14, a15, a16, a17, a18, a19, a20, a21, a22⟩ := h
  refine ⟨a1, a2, insEv_sorted a3, ?_, a5, a6, a7, a8, a9, ?_, a11, a12, a13, a14, a15, a16, a17, a18, a19, a20, a21, a22⟩
  · intro ev hev
    rcases mem_insEv.mp hev with rfl | hev
    · exact ht
    · exact a4 ev hev
  · intro ev hev
    rcases mem_insEv.mp hev with rfl | hev
    · exact hk
    · exact a10 ev hev

/-- kinds that carry no trip timing obligation -/
theorem evTime_other (s : FleetStore) (ev : KEv) (h : ∀ m, ev.kind ≠ .init m ∧ ev.kind ≠ .tr1 m ∧ ev.kind ≠ .tr2 m) : EvTime s ev :=
  ⟨fun m hm => absurd hm (h m).1, fun m hm => absurd hm (h m).2.1, fun m hm => absurd hm (h m).2.2⟩

theorem KT.setNow {s : FleetStore} (h : KT s) (d : Nat) (hd : s.now ≤ d) (hq : ∀ ev ∈ s.queue, d ≤ ev.time) :
    KT { s with b := s.b.setNow d } := by
  obtain ⟨a1, a2, a3, a4, a5, a6, a7, a8, a9, a10, a11, a12, a13, a14, a15, a16, a17, a18, a19, a20, a21, a22⟩ := h
  refine ⟨BufStore.setNow_core d a1, a2, a3, hq, a5, a6, a7, a8, a9, a10, ?_, a12, a13, a14, a15, a16, a17, a18, a19, a20, a21, a22⟩
  intro e he
  exact Nat.le_trans (a11 e he) hd

theorem KT.adv {s : FleetStore} (h : KT s) (dt : Nat) : KT (s.adv dt) := by
  unfold FleetStore.adv
  split
  · rename_i e q hq
    split
    · exact h.congr rfl rfl rfl rfl rfl rfl rfl rfl rfl
    · rename_i hlt
      refine h.setNow _ (Nat.le_add_right _ _) ?_
      intro ev hev
      rw [hq] at hev
      have hs := h.tsorted; rw [hq] at hs
      rcases List.mem_cons.mp hev with rfl | hev
      · omega
      · have := (List.pairwise_cons.mp hs).1 ev hev; omega
  · rename_i hq
    refine h.setNow _ (Nat.le_add_right _ _) ?_
    intro ev hev; rw [hq] at hev; cases hev

/-! ### put -/

theorem put_b_cases (b : BufStore) (p tid : Nat) (x : Item) :
    ((b.put p tid x 0).2 ≠ .ok ∧ BFrame b (b.put p tid x 0).1) ∨
    ((b.put p tid x 0).2 = .ok ∧ (b.put p tid x 0).1.cfg = b.cfg ∧ (b.put p tid x 0).1.now = b.now ∧
      (b.put p tid x 0).1.putLog = b.putLog ++ [x] ∧
      ∃ e : BEntry, (b.put p tid x 0).1.transit = b.transit ++ [e] ∧ e.due = b.now ∧ e.seq = b.putLog.length) := by
  rcases BufStore.put_cases b p tid x 0 with ⟨he, _⟩ | ⟨t, _, _, _, ⟨_, he⟩ | ⟨_, he⟩⟩
  · left; rw [he]; exact ⟨by simp, rfl, rfl, rfl, rfl⟩
  · right; rw [he]
    refine ⟨rfl, by simp [BufStore.addItem, BufStore.dropPutRes], by simp [BufStore.addItem, BufStore.dropPutRes],
      by simp [BufStore.addItem, BufStore.dropPutRes], ?_⟩
    exact ⟨{ item := x, due := b.now + 0, seq := b.putLog.length }, by simp [BufStore.addItem, BufStore.dropPutRes], by simp, rfl⟩
  · left; rw [he]; exact ⟨by simp, by simp [BFrame, BufStore.dropPutRes]⟩

theorem KT.put {s : FleetStore} (h : KT s) (p tid : Nat) (x : Item)
    (hok : BufStore.hasItem (BufStore.inside s.b) x = false) : KT (s.put p tid x).1 := by
  have hcore := (BufStore.put_core p tid x 0 h.core hok).1
  unfold FleetStore.put
  rcases put_b_cases s.b p tid x with ⟨hne, hf⟩ | ⟨heq, hcfg, hnow, hlog, e, htr, hdue, hseq⟩
  · generalize hput : s.b.put p tid x 0 = r at hcore hne hf
    obtain ⟨b1, res⟩ := r
    simp only at hcore hne hf ⊢
    cases res <;> first | exact absurd rfl hne | exact h.of_b b1 hcore hf
  · generalize hput : s.b.put p tid x 0 = r at hcore heq hcfg hnow hlog htr
    obtain ⟨b1, res⟩ := r
    simp only at hcore heq hcfg hnow hlog htr ⊢
    subst heq
    simp only
    have hc2 : Core { b1.trigGet with timers := [] } :=
      BufStore.core_of_eq (BufStore.trigGet_core_settled hcore) rfl rfl rfl rfl rfl rfl rfl rfl rfl rfl rfl rfl rfl
    have base : KT { s with b := { b1.trigGet with timers := [] } } := by
      obtain ⟨a1, a2, a3, a4, a5, a6, a7, a8, a9, a10, a11, a12, a13, a14, a15, a16, a17, a18, a19, a20, a21, a22⟩ := h
      refine ⟨hc2, by simp [hcfg, a2], a3, ?_, ?_, a6, a7, a8, a9, a10, ?_, a12, a13, ?_, ?_, ?_, a17, a18, ?_, a20, a21, a22⟩
      · intro ev hev; simp only [now, BufStore.trigGet_now, hnow]; exact a4 ev hev
      · intro e' he'; simp only [BufStore.trigGet_transit, htr]; exact List.mem_append_left _ (a5 e' he')
      · intro e' he'
        simp only [BufStore.trigGet_transit, htr] at he'
        simp only [now, BufStore.trigGet_now, hnow]
        rcases List.mem_append.mp he' with he' | he'
        · exact a11 e' he'
        · simp at he'; subst he'; simp only [now] at *; omega
      · intro e' he'
        simp only [BufStore.trigGet_transit, htr] at he'
        simp only [BufStore.trigGet_putLog, hlog, List.length_append, List.length_singleton]
        rcases List.mem_append.mp he' with he' | he'
        · have := a14 e' he'; omega
        · simp at he'; subst he'; omega
      · intro e1 he1 e2 he2 heq
        simp only [BufStore.trigGet_transit, htr] at he1 he2
        rcases List.mem_append.mp he1 with he1 | he1 <;> rcases List.mem_append.mp he2 with he2 | he2
        · exact a15 e1 he1 e2 he2 heq
        · simp at he2; have := a14 e1 he1; rw [he2] at heq; omega
        · simp at he1; have := a14 e2 he2; rw [he1] at heq; omega
        · simp at he1 he2; rw [he1, he2]
      · simp only [BufStore.trigGet_putLog, hlog, List.length_append, List.length_singleton]; omega
      · intro e' he' hlt
        simp only [BufStore.trigGet_transit, htr] at he'
        rcases List.mem_append.mp he' with he' | he'
        · exact a19 e' he' hlt
        · simp at he'; subst he'; simp only at hlt; omega
    unfold trigger
    split
    · refine KT.sched (s := { { s with b := { b1.trigGet with timers := [] } } with actTriggered := true })
        (base.congr rfl rfl rfl rfl rfl rfl rfl rfl rfl) _ false _ (Nat.le_refl _) (evTime_other _ _ ?_)
      intro m; simp
    · exact base


/-! ### the activation process -/

theorem sched_now (s : FleetStore) (t : Nat) (u : Bool) (k : FKind) : (s.sched t u k).now = s.now := rfl

theorem KT.enterLoop {s : FleetStore} (h : KT s) : KT s.enterLoop := by
  unfold FleetStore.enterLoop
  have h1 : KT (({ s with gen := s.gen + 1, condFired := false } : FleetStore).sched (s.now + s.cfg.delay) false (.tmo (s.gen + 1))) := by
    refine KT.sched (s := { s with gen := s.gen + 1, condFired := false }) (h.congr rfl rfl rfl rfl rfl rfl rfl rfl rfl) _ _ _
      (Nat.le_add_right _ _) (evTime_other _ _ ?_)
    intro m; simp
  simp only
  split
  · refine KT.congr (KT.sched h1 _ false _ (Nat.le_refl _) (evTime_other _ _ ?_)) rfl rfl rfl rfl rfl rfl rfl rfl rfl
    intro m; simp
  · exact h1

theorem evTime_mono {s s' : FleetStore} {ev : KEv} (h : EvTime s ev) (hc : s'.cfg = s.cfg)
    (hd : ∀ t ∈ s.departed, t ∈ s'.departed) : EvTime s' ev := by
  obtain ⟨h1, h2, h3⟩ := h
  refine ⟨?_, ?_, ?_⟩
  · intro m hm; obtain ⟨t, ht, h⟩ := h1 m hm; exact ⟨t, hd t ht, h⟩
  · intro m hm; obtain ⟨t, ht, h⟩ := h2 m hm; exact ⟨t, hd t ht, by rw [hc]; exact h⟩
  · intro m hm; obtain ⟨t, ht, h⟩ := h3 m hm; exact ⟨t, hd t ht, by rw [hc]; exact h⟩

theorem transit_nodup {s : FleetStore} (h : KT s) : s.b.transit.Nodup := by
  have := BufStore.dist_nodup h.core.dist
  unfold BufStore.inside at this
  exact (List.nodup_append.mp this).1

theorem mem_waiting {s : FleetStore} {e : BEntry} : e ∈ s.waiting ↔ e ∈ s.b.transit ∧ e ∉ s.inTransit := by
  simp [waiting]

/-- the departure itself (before the Initialize of the trip is scheduled) -/
theorem KT.depart {s : FleetStore} (h : KT s) :
    KT { s with inTransit := s.inTransit ++ s.waiting,
                trips := s.trips ++ [{ id := s.nextTrip, batch := s.waiting, depart := s.now, lo := s.upTo, hi := s.b.putLog.length }],
                nextTrip := s.nextTrip + 1,
                departed := s.departed ++ [{ id := s.nextTrip, batch := s.waiting, depart := s.now, lo := s.upTo, hi := s.b.putLog.length }],
                upTo := s.b.putLog.length } := by
  have hwn : s.waiting.Nodup := (transit_nodup h).filter _
  have hwseq : ∀ e ∈ s.waiting, s.upTo ≤ e.seq ∧ e.seq < s.b.putLog.length := by
    intro e he
    obtain ⟨h1, h2⟩ := mem_waiting.mp he
    refine ⟨?_, h.seqLt e h1⟩
    rcases Nat.lt_or_ge e.seq s.upTo with hlt | hge
    · exact absurd (h.upIn e h1 hlt) h2
    · exact hge
  obtain ⟨a1, a2, a3, a4, a5, a6, a7, a8, a9, a10, a11, a12, a13, a14, a15, a16, a17, a18, a19, a20, a21, a22⟩ := h
  refine ⟨a1, a2, a3, a4, ?_, ?_, ?_, ?_, ?_, ?_, a11, ?_, ?_, a14, a15, Nat.le_refl _, ?_, ?_, ?_, ?_, ?_, ?_⟩
  · intro e he
    rcases List.mem_append.mp he with he | he
    · exact a5 e he
    · exact (mem_waiting.mp he).1
  · intro t ht e he
    rcases List.mem_append.mp ht with ht | ht
    · exact List.mem_append_left _ (a6 t ht e he)
    · simp at ht; subst ht; exact List.mem_append_right _ he
  · intro t ht
    rcases List.mem_append.mp ht with ht | ht
    · exact List.mem_append_left _ (a7 t ht)
    · exact List.mem_append_right _ ht
  · intro t ht
    rcases List.mem_append.mp ht with ht | ht
    · have := a8 t ht; simp only; omega
    · simp at ht; subst ht; simp
  · refine List.pairwise_append.mpr ⟨a9, by simp, ?_⟩
    intro a ha b hb
    simp at hb; subst hb
    have := a8 a ha; simp only; omega
  · intro ev hev
    exact evTime_mono (a10 ev hev) rfl (fun t ht => List.mem_append_left _ ht)
  · intro t ht e he
    rcases List.mem_append.mp ht with ht | ht
    · exact a12 t ht e he
    · simp at ht; subst ht; exact a11 e (mem_waiting.mp he).1
  · intro x hx
    obtain ⟨t, ht, e, he, h1, h2⟩ := a13 x hx
    exact ⟨t, List.mem_append_left _ ht, e, he, h1, h2⟩
  · refine List.nodup_append.mpr ⟨a17, hwn, ?_⟩
    intro x hx y hy hxy
    subst hxy
    exact (mem_waiting.mp hy).2 hx
  · intro e he
    rcases List.mem_append.mp he with he | he
    · have := a18 e he; simp only; omega
    · exact (hwseq e he).2
  · intro e he _
    by_cases hin : e ∈ s.inTransit
    · exact List.mem_append_left _ hin
    · exact List.mem_append_right _ (mem_waiting.mpr ⟨he, hin⟩)
  · intro t ht
    rcases List.mem_append.mp ht with ht | ht
    · obtain ⟨r1, r2, r3⟩ := a20 t ht
      exact ⟨r1, by simp only; omega, r3⟩
    · simp at ht; subst ht
      exact ⟨fun e he => hwseq e he, Nat.le_refl _, hwn⟩
  · intro x hx y hy hlt
    rcases List.mem_append.mp hx with hx | hx <;> rcases List.mem_append.mp hy with hy | hy
    · exact a21 x hx y hy hlt
    · simp at hy; subst hy; exact (a20 x hx).2.1
    · simp at hx; subst hx
      have := a8 y (a7 y hy); simp only at hlt; omega
    · simp at hx hy; subst hx; subst hy; simp at hlt
  · intro x hx y hy heq
    rcases List.mem_append.mp hx with hx | hx <;> rcases List.mem_append.mp hy with hy | hy
    · exact a22 x hx y hy heq
    · simp at hy; subst hy
      have := a8 x (a7 x hx); simp only at heq; omega
    · simp at hx; subst hx
      have := a8 y (a7 y hy); simp only at heq; omega
    · simp at hx hy; rw [hx, hy]

theorem KT.body {s : FleetStore} (h : KT s) : KT s.body := by
  unfold FleetStore.body
  simp only
  have h1 : KT (if s.waiting.isEmpty then s else
      ({ s with inTransit := s.inTransit ++ s.waiting,
                trips := s.trips ++ [{ id := s.nextTrip, batch := s.waiting, depart := s.now, lo := s.upTo, hi := s.b.putLog.length }],
                nextTrip := s.nextTrip + 1,
                departed := s.departed ++ [{ id := s.nextTrip, batch := s.waiting, depart := s.now, lo := s.upTo, hi := s.b.putLog.length }],
                upTo := s.b.putLog.length } : FleetStore).sched s.now true (.init s.nextTrip)) := by
    split
    · exact h
    · refine KT.sched h.depart _ _ _ (Nat.le_refl _) ⟨?_, ?_, ?_⟩
      · intro m hm
        simp only [FKind.init.injEq] at hm
        subst hm
        exact ⟨_, List.mem_append_right _ (List.mem_singleton.mpr rfl), rfl, rfl⟩
      · intro m hm; cases hm
      · intro m hm; cases hm
  generalize hs1 : (if s.waiting.isEmpty then s else _) = s1 at h1
  have h2 : KT (if s1.actTriggered then { s1 with curAct := s1.curAct + 1, actTriggered := false, actProcessed := false } else s1) := by
    split
    · exact h1.congr rfl rfl rfl rfl rfl rfl rfl rfl rfl
    · exact h1
  exact h2.enterLoop


/-! ### arrival of a trip -/

theorem move_eq {b : BufStore} (h : Core b) {e : BEntry} (he : e ∈ b.transit) :
    ((b.arrive e).trigGet).trigPut = b.move e := by
  unfold BufStore.move
  rw [if_pos (BufStore.moveRoom_of_transit h.toPre he)]

theorem room_of_transit {s : FleetStore} (h : KT s) {e : BEntry} (he : e ∈ s.b.transit) :
    readyRoom s.cfg s.b = true := by
  unfold readyRoom
  cases hc : s.cfg.cap with
  | none => rfl
  | some c =>
    have := h.core.cap c (by rw [h.cfgB]; exact hc)
    have hl : 0 < s.b.transit.length := List.length_pos_of_mem he
    simp only [BufStore.level] at this
    simp only [decide_eq_true_eq]
    omega

/-- the control state of the activation process -/
structure Ctl (s s' : FleetStore) : Prop where
  started : s'.started = s.started
  condFired : s'.condFired = s.condFired
  gen : s'.gen = s.gen

theorem Ctl.refl (s : FleetStore) : Ctl s s := ⟨rfl, rfl, rfl⟩
theorem Ctl.trans {a b c : FleetStore} (h1 : Ctl a b) (h2 : Ctl b c) : Ctl a c :=
  ⟨h2.started.trans h1.started, h2.condFired.trans h1.condFired, h2.gen.trans h1.gen⟩

theorem KT.moveOne {s : FleetStore} (h : KT s) (e : BEntry) (t : Trip) (he : e ∈ s.inTransit) (ht : t ∈ s.departed)
    (het : e ∈ t.batch) (hnow : s.now = t.depart + 2 * s.cfg.transit)
    (hother : ∀ t' ∈ s.trips, ∀ x ∈ t'.batch, x ≠ e) :
    KT (s.moveOne e) ∧ (s.moveOne e).now = s.now ∧ (s.moveOne e).cfg = s.cfg ∧ (s.moveOne e).queue = s.queue ∧
    (s.moveOne e).trips = s.trips ∧ (s.moveOne e).departed = s.departed ∧
    (s.moveOne e).inTransit = s.inTransit.erase e ∧ (s.moveOne e).readyAt = s.readyAt ++ [(e.seq, s.now)] ∧
    (s.moveOne e).b.crashed = false ∧ Ctl s (s.moveOne e) ∧ (∀ x ∈ (s.moveOne e).waiting, x ∈ s.waiting) := by
  have hetr : e ∈ s.b.transit := h.sub e he
  have hcontains : s.b.transit.contains e = true := by simpa using hetr
  have hroom := room_of_transit h hetr
  have hmc := BufStore.move_core h.core hetr
  have hmeq := move_eq h.core hetr
  have htn := transit_nodup h
  unfold FleetStore.moveOne
  simp only [hcontains, Bool.not_true, Bool.false_eq_true, if_false, hroom, if_true]
  rw [hmeq]
  have hbnow : (s.b.move e).now = s.b.now := by rw [← hmeq]; simp [BufStore.arrive]
  have hbcfg : (s.b.move e).cfg = s.b.cfg := by rw [← hmeq]; simp [BufStore.arrive]
  have hblog : (s.b.move e).putLog = s.b.putLog := by rw [← hmeq]; simp [BufStore.arrive]
  refine ⟨?_, by simp only [now]; exact hbnow, trivial, trivial, trivial, trivial, trivial, trivial, hmc.1.alive, ⟨rfl, rfl, rfl⟩, ?_⟩
  rotate_left
  · intro x hx
    simp only [waiting, hmc.2.1, List.mem_filter, Bool.not_eq_eq_eq_not, Bool.not_true, List.contains_eq_mem,
      decide_eq_false_iff_not] at hx ⊢
    obtain ⟨hx1, hx2⟩ := hx
    have hxne : x ≠ e := fun hxe => by subst hxe; exact ((List.Nodup.mem_erase_iff htn).mp hx1).1 rfl
    exact ⟨List.mem_of_mem_erase hx1, fun hin => hx2 ((List.mem_erase_of_ne hxne).mpr hin)⟩
  obtain ⟨a1, a2, a3, a4, a5, a6, a7, a8, a9, a10, a11, a12, a13, a14, a15, a16, a17, a18, a19, a20, a21, a22⟩ := h
  have hne : ∀ x, x ∈ s.inTransit.erase e → x ∈ s.inTransit ∧ x ≠ e := fun x hx =>
    ⟨List.mem_of_mem_erase hx, fun hxe => by subst hxe; exact (List.Nodup.mem_erase_iff a17).mp hx |>.1 rfl⟩
  have hne' : ∀ x, x ∈ s.b.transit.erase e → x ∈ s.b.transit ∧ x ≠ e := fun x hx =>
    ⟨List.mem_of_mem_erase hx, fun hxe => by subst hxe; exact (List.Nodup.mem_erase_iff htn).mp hx |>.1 rfl⟩
  refine ⟨hmc.1, by rw [hbcfg]; exact a2, a3, ?_, ?_, ?_, a7, a8, a9, ?_, ?_, a12, ?_, ?_, ?_, ?_, ?_, ?_, ?_, a20, a21, a22⟩
  · intro ev hev; simp only [now, hbnow]; exact a4 ev hev
  · intro x hx
    obtain ⟨h1, h2⟩ := hne x hx
    simp only [hmc.2.1]
    exact (List.mem_erase_of_ne h2).mpr (a5 x h1)
  · intro t' ht' x hx
    exact (List.mem_erase_of_ne (hother t' ht' x hx)).mpr (a6 t' ht' x hx)
  · intro ev hev
    exact evTime_mono (a10 ev hev) rfl (fun t ht => ht)
  · intro x hx
    simp only [hmc.2.1] at hx
    simp only [now, hbnow]
    exact a11 x (hne' x hx).1
  · intro x hx
    rcases List.mem_append.mp hx with hx | hx
    · exact a13 x hx
    · simp at hx; subst hx
      exact ⟨t, ht, e, het, rfl, hnow⟩
  · intro x hx
    simp only [hmc.2.1] at hx
    simp only [hblog]
    exact a14 x (hne' x hx).1
  · intro x hx y hy
    simp only [hmc.2.1] at hx hy
    exact a15 x (hne' x hx).1 y (hne' y hy).1
  · simp only [hblog]; exact a16
  · exact a17.erase e
  · intro x hx; exact a18 x (hne x hx).1
  · intro x hx hlt
    simp only [hmc.2.1] at hx
    obtain ⟨h1, h2⟩ := hne' x hx
    exact (List.mem_erase_of_ne h2).mpr (a19 x h1 hlt)


def moveAll (s : FleetStore) (l : List BEntry) : FleetStore :=
  l.foldl (fun s e => if s.b.crashed then s else s.moveOne e) s

theorem moveAll_kt : ∀ (rest : List BEntry) (s : FleetStore) (t : Trip), KT s → t ∈ s.departed →
    s.now = t.depart + 2 * s.cfg.transit → (∀ e ∈ rest, e ∈ s.inTransit ∧ e ∈ t.batch) → rest.Nodup →
    (∀ t' ∈ s.trips, ∀ x ∈ t'.batch, ∀ e ∈ rest, x ≠ e) →
    KT (s.moveAll rest) ∧ (s.moveAll rest).now = s.now ∧ (s.moveAll rest).cfg = s.cfg ∧ (s.moveAll rest).queue = s.queue ∧
    (s.moveAll rest).trips = s.trips ∧ (s.moveAll rest).departed = s.departed ∧
    (s.moveAll rest).readyAt = s.readyAt ++ rest.map (fun e => (e.seq, s.now)) ∧
    Ctl s (s.moveAll rest) ∧ (∀ x ∈ (s.moveAll rest).waiting, x ∈ s.waiting) := by
  intro rest
  induction rest with
  | nil => intro s t h _ _ _ _ _; exact ⟨h, rfl, rfl, rfl, rfl, rfl, by simp [moveAll], Ctl.refl s, fun x hx => hx⟩
  | cons e rest ih =>
    intro s t h ht hnow hsub hnd hother
    have halive : s.b.crashed = false := h.core.alive
    obtain ⟨k1, k2, k3, k4, k5, k6, k7, k8, _, k10, k11⟩ := h.moveOne e t (hsub e List.mem_cons_self).1 ht (hsub e List.mem_cons_self).2 hnow
      (fun t' ht' x hx => hother t' ht' x hx e List.mem_cons_self)
    have hnd' := List.nodup_cons.mp hnd
    have := ih (s.moveOne e) t k1 (by rw [k6]; exact ht) (by rw [k2, k3]; exact hnow)
      (fun x hx => ⟨by rw [k7]; exact (List.mem_erase_of_ne (fun (hxe : x = e) => hnd'.1 (hxe ▸ hx))).mpr (hsub x (List.mem_cons_of_mem _ hx)).1,
                    (hsub x (List.mem_cons_of_mem _ hx)).2⟩)
      hnd'.2 (fun t' ht' x hx y hy => hother t' (by rw [k5] at ht'; exact ht') x hx y (List.mem_cons_of_mem _ hy))
    obtain ⟨j1, j2, j3, j4, j5, j6, j7, j8, j9⟩ := this
    have hstep : s.moveAll (e :: rest) = (s.moveOne e).moveAll rest := by
      simp [moveAll, halive]
    rw [hstep]
    refine ⟨j1, j2.trans k2, j3.trans k3, j4.trans k4, j5.trans k5, j6.trans k6, ?_, k10.trans j8, fun x hx => k11 x (j9 x hx)⟩
    rw [j7, k8, k2]; simp

theorem KT.arriveTrip {s : FleetStore} (h : KT s) (m : Nat)
    (hm : ∃ t ∈ s.departed, t.id = m ∧ s.now = t.depart + 2 * s.cfg.transit) :
    KT (s.arriveTrip m) ∧ (s.arriveTrip m).now = s.now ∧ (s.arriveTrip m).cfg = s.cfg ∧ (s.arriveTrip m).queue = s.queue ∧
    (s.arriveTrip m).departed = s.departed ∧ Ctl s (s.arriveTrip m) ∧ (∀ x ∈ (s.arriveTrip m).waiting, x ∈ s.waiting) ∧
    ((∀ t ∈ s.trips, t.id ≠ m) ∨ ∃ t ∈ s.trips, t.id = m ∧
      (s.arriveTrip m).readyAt = s.readyAt ++ t.batch.map (fun e => (e.seq, s.now))) := by
  unfold FleetStore.arriveTrip
  split
  · rename_i hnone
    refine ⟨h, rfl, rfl, rfl, rfl, Ctl.refl s, fun x hx => hx, Or.inl ?_⟩
    intro t ht hid
    have := List.find?_eq_none.mp hnone t ht
    simp [hid] at this
  · rename_i t hfind
    have htm : t ∈ s.trips := List.mem_of_find?_eq_some hfind
    have hid : t.id = m := by have := List.find?_some hfind; simpa using this
    obtain ⟨t0, ht0, hid0, hnow⟩ := hm
    have htd := h.tripsDep t htm
    -- ids are unique among the departed trips: t0 = t
    have ht0t : t0 = t := by
      have := h.idsNd
      rcases List.mem_iff_getElem.mp ht0 with ⟨i, hi, hit⟩
      rcases List.mem_iff_getElem.mp htd with ⟨j, hj, hjt⟩
      rcases Nat.lt_trichotomy i j with hlt | heq | hgt
      · exact absurd (by rw [hit, hjt, hid0, hid]) (List.pairwise_iff_getElem.mp this i j hi hj hlt)
      · subst heq; rw [← hit, ← hjt]
      · exact absurd (by rw [hit, hjt, hid0, hid]) (List.pairwise_iff_getElem.mp this j i hj hi hgt)
    subst ht0t
    have h0 : KT { s with trips := s.trips.filter (fun t => t.id != m) } := by
      obtain ⟨a1, a2, a3, a4, a5, a6, a7, a8, a9, a10, a11, a12, a13, a14, a15, a16, a17, a18, a19, a20, a21, a22⟩ := h
      refine ⟨a1, a2, a3, a4, a5, ?_, ?_, a8, a9, a10, a11, a12, a13, a14, a15, a16, a17, a18, a19, ?_, ?_, ?_⟩
      · intro t' ht'; exact a6 t' ((List.mem_filter.mp ht').1)
      · intro t' ht'; exact a7 t' ((List.mem_filter.mp ht').1)
      · intro t' ht'; exact a20 t' ((List.mem_filter.mp ht').1)
      · intro x hx y hy; exact a21 x ((List.mem_filter.mp hx).1) y ((List.mem_filter.mp hy).1)
      · intro x hx y hy; exact a22 x ((List.mem_filter.mp hx).1) y ((List.mem_filter.mp hy).1)
    have hr := h.tripRange t0 htm
    have key := moveAll_kt t0.batch _ t0 h0 ht0 hnow (fun e he => ⟨h.tripsSub t0 htm e he, he⟩) hr.2.2 ?_
    · obtain ⟨j1, j2, j3, j4, _, j6, j7, j8, j9⟩ := key
      exact ⟨j1, j2, j3, j4, j6, ⟨j8.started, j8.condFired, j8.gen⟩, j9, Or.inr ⟨t0, htm, hid0, j7⟩⟩
    intro t' ht' x hx e he hxe
    subst hxe
    have ht'm : t' ∈ s.trips := (List.mem_filter.mp ht').1
    have hne : t'.id ≠ t0.id := by
      have := (List.mem_filter.mp ht').2; simp at this; rw [hid0]; exact this
    have r' := h.tripRange t' ht'm
    have rx := r'.1 x hx
    have re := hr.1 x he
    rcases Nat.lt_or_gt_of_ne hne with hlt | hgt
    · have := h.tripOrder t' ht'm t0 htm hlt; omega
    · have := h.tripOrder t0 htm t' ht'm hgt; omega


/-! ### one kernel event, one operation, every reachable state -/

/-- the timing obligation of the event being processed, read at the (new) current time -/
def EvNow (s : FleetStore) (k : FKind) : Prop :=
  (∀ m, k = .init m → ∃ t ∈ s.departed, t.id = m ∧ s.now = t.depart) ∧
  (∀ m, k = .tr1 m → ∃ t ∈ s.departed, t.id = m ∧ s.now = t.depart + s.cfg.transit) ∧
  (∀ m, k = .tr2 m → ∃ t ∈ s.departed, t.id = m ∧ s.now = t.depart + 2 * s.cfg.transit)

theorem KT.handle {s : FleetStore} (h : KT s) (k : FKind) (hk : EvNow s k) : KT (s.handle k) := by
  unfold FleetStore.handle
  cases k with
  | procInit => exact KT.enterLoop (s := { s with started := true }) (h.congr rfl rfl rfl rfl rfl rfl rfl rfl rfl)
  | tmo g =>
    simp only
    split
    · refine KT.congr (KT.sched h _ false _ (Nat.le_refl _) (evTime_other _ _ ?_)) rfl rfl rfl rfl rfl rfl rfl rfl rfl
      intro m; simp
    · exact h
  | act a =>
    simp only
    have h1 : KT (if a = s.curAct then { s with actProcessed := true } else s) := by
      split
      · exact h.congr rfl rfl rfl rfl rfl rfl rfl rfl rfl
      · exact h
    split
    · refine KT.congr (KT.sched h1 _ false _ (Nat.le_refl _) (evTime_other _ _ ?_)) rfl rfl rfl rfl rfl rfl rfl rfl rfl
      intro m; simp
    · exact h1
  | cond g =>
    simp only
    split
    · exact h.body
    · exact h
  | init m =>
    simp only
    obtain ⟨t, ht, hid, hnow⟩ := hk.1 m rfl
    refine KT.sched h _ _ _ (Nat.le_add_right _ _) ⟨fun m' hm' => (by cases hm'), ?_, fun m' hm' => (by cases hm')⟩
    intro m' hm'
    simp only [FKind.tr1.injEq] at hm'
    subst hm'
    exact ⟨t, ht, hid, by simp only; omega⟩
  | tr1 m =>
    simp only
    obtain ⟨t, ht, hid, hnow⟩ := hk.2.1 m rfl
    refine KT.sched h _ _ _ (Nat.le_add_right _ _) ⟨fun m' hm' => (by cases hm'), fun m' hm' => (by cases hm'), ?_⟩
    intro m' hm'
    simp only [FKind.tr2.injEq] at hm'
    subst hm'
    exact ⟨t, ht, hid, by simp only; omega⟩
  | tr2 m =>
    simp only
    exact (h.arriveTrip m (hk.2.2 m rfl)).1

theorem KT.ev {s : FleetStore} (h : KT s) : KT s.ev := by
  unfold FleetStore.ev
  split
  · exact h
  · rename_i e q hq
    have hmem : e ∈ s.queue := by rw [hq]; exact List.mem_cons_self
    have hle : s.now ≤ e.time := h.clock e hmem
    have hmax : max s.now e.time = e.time := Nat.max_eq_right hle
    have hs := h.tsorted; rw [hq] at hs
    have h0 : KT { s with queue := q, b := s.b.setNow (max s.now e.time) } := by
      have h1 : KT { s with queue := q } := by
        obtain ⟨a1, a2, a3, a4, a5, a6, a7, a8, a9, a10, a11, a12, a13, a14, a15, a16, a17, a18, a19, a20, a21, a22⟩ := h
        refine ⟨a1, a2, (List.pairwise_cons.mp hs).2, ?_, a5, a6, a7, a8, a9, ?_, a11, a12, a13, a14, a15, a16, a17, a18, a19, a20, a21, a22⟩
        · intro ev hev; exact a4 ev (by rw [hq]; exact List.mem_cons_of_mem _ hev)
        · intro ev hev; exact a10 ev (by rw [hq]; exact List.mem_cons_of_mem _ hev)
      refine KT.setNow h1 _ (by rw [hmax]; exact hle) ?_
      intro ev hev
      rw [hmax]
      exact (List.pairwise_cons.mp hs).1 ev hev
    refine h0.handle e.kind ?_
    have het := h.evTime e hmem
    have hn : ({ s with queue := q, b := s.b.setNow (max s.now e.time) } : FleetStore).now = e.time := by
      simp only [now, BufStore.setNow]; exact hmax
    refine ⟨?_, ?_, ?_⟩
    · intro m hm; obtain ⟨t, ht, h1, h2⟩ := het.1 m hm; exact ⟨t, ht, h1, by rw [hn]; exact h2⟩
    · intro m hm; obtain ⟨t, ht, h1, h2⟩ := het.2.1 m hm; exact ⟨t, ht, h1, by rw [hn]; exact h2⟩
    · intro m hm; obtain ⟨t, ht, h1, h2⟩ := het.2.2 m hm; exact ⟨t, ht, h1, by rw [hn]; exact h2⟩

/-- the discipline: an object is loaded only while it is not inside -/
def OpOK (s : FleetStore) : Op → Prop
  | .put _ _ x => BufStore.hasItem (BufStore.inside s.b) x = false
  | _ => True

theorem KT.clear {s : FleetStore} (h : KT s) : KT { s with b := { s.b with fired := [] }, newReady := [] } := by
  have := h.of_b { s.b with fired := [] } (BufStore.clearFired_core h.core) ⟨rfl, rfl, rfl, rfl⟩
  exact this.congr rfl rfl rfl rfl rfl rfl rfl rfl rfl

theorem KT.step {s : FleetStore} (h : KT s) (op : Op) (hok : OpOK s op) : KT (s.step op).1 := by
  unfold FleetStore.step
  have h' := h.clear
  cases op with
  | reservePut p => exact h'.lift _ (BufStore.reservePutP_core p 0 h'.core) (reservePutP_frame _ p 0)
  | reserveGet p => exact h'.lift _ (BufStore.reserveGetP_core p 0 h'.core) (reserveGetP_frame _ p 0)
  | reservePutP p pr => exact h'.lift _ (BufStore.reservePutP_core p pr h'.core) (reservePutP_frame _ p pr)
  | reserveGetP p pr => exact h'.lift _ (BufStore.reserveGetP_core p pr h'.core) (reserveGetP_frame _ p pr)
  | put p t x => exact h'.put p t x hok
  | get p t => exact h'.lift _ (BufStore.get_core p t h'.core).1 (get_frame _ p t)
  | cancelPut t => exact h'.lift _ (BufStore.cancelPut_core t h'.core) (cancelPut_frame _ t)
  | cancelGet t => exact h'.lift _ (BufStore.cancelGet_core t h'.core).1 (cancelGet_frame _ t)
  | adv dt => exact h'.adv dt
  | ev => exact h'.ev
  | final => exact h'.of_b _ (BufStore.updLevel_core h'.core) ⟨by simp [BufStore.final], by simp [BufStore.final], by simp [BufStore.final], by simp [BufStore.final]⟩

inductive ReachD : FleetStore → Prop where
  | init (cfg : FleetCfg) : ReachD (init cfg)
  | step {s : FleetStore} (op : Op) : ReachD s → OpOK s op → ReachD (s.step op).1

theorem reachD_kt {s : FleetStore} (h : ReachD s) : KT s := by
  induction h with
  | init cfg => exact init_kt cfg
  | step op _ hok ih => exact ih.step op hok

end FleetStore
end FsVerif
