/-
Inductive invariants of the positional-store model (all three classes at once).
-/
import FsVerif.Model.PosStore
import FsVerif.Proofs.Basic
namespace FsVerif
namespace PosStore

/-- Capacity bound: granted-unused space reservations + items ≤ capacity. -/
def CapOK (s : PosStore) : Prop := ∀ c, s.cfg.cap = some c → s.putRes.length + s.items.length ≤ c

/-- Positional binding: one reserved-event slot per granted retrieval, each backed by an item. -/
def BindOK (s : PosStore) : Prop :=
  s.resEv.Perm s.getRes ∧ s.resEv.length ≤ s.items.length

/-- All live tokens are distinct and older than the allocation counter. -/
def TokOK (s : PosStore) : Prop :=
  ((s.putQ ++ s.putRes ++ s.getQ ++ s.getRes).map Tok.id).Nodup ∧
  ∀ t ∈ s.putQ ++ s.putRes ++ s.getQ ++ s.getRes, t.id < s.nextTid

def SortedOK (s : PosStore) : Prop := QSorted s.putQ ∧ QSorted s.getQ

/-- No lost wake-up, space side: a waiting space request means the store is full. -/
def WakePutOK (s : PosStore) : Prop := s.putQ ≠ [] → s.admits = false

/-- Conservation: everything put is either still inside or was handed out. -/
def ConsOK (s : PosStore) : Prop := (s.gotLog ++ s.items.map (·.item)).Perm s.putLog

structure Inv (s : PosStore) : Prop where
  cap : CapOK s
  bind : BindOK s
  tok : TokOK s
  sorted : SortedOK s
  wakePut : WakePutOK s
  cons : ConsOK s

/-! ### frame lemmas for the two trigger functions -/

/-- close frame goals: unfold, split the `match`/`if`, `rfl`. -/
macro "frame" : tactic => `(tactic| (repeat' split) <;> rfl)

section trig
variable (s : PosStore)

@[simp] theorem trigPut_cfg : s.trigPut.cfg = s.cfg := by unfold trigPut; frame
@[simp] theorem trigPut_items : s.trigPut.items = s.items := by unfold trigPut; frame
@[simp] theorem trigPut_getQ : s.trigPut.getQ = s.getQ := by unfold trigPut; frame
@[simp] theorem trigPut_getRes : s.trigPut.getRes = s.getRes := by unfold trigPut; frame
@[simp] theorem trigPut_resEv : s.trigPut.resEv = s.resEv := by unfold trigPut; frame
@[simp] theorem trigPut_nextTid : s.trigPut.nextTid = s.nextTid := by unfold trigPut; frame
@[simp] theorem trigPut_now : s.trigPut.now = s.now := by unfold trigPut; frame
@[simp] theorem trigPut_timers : s.trigPut.timers = s.timers := by unfold trigPut; frame
@[simp] theorem trigPut_putLog : s.trigPut.putLog = s.putLog := by unfold trigPut; frame
@[simp] theorem trigPut_gotLog : s.trigPut.gotLog = s.gotLog := by unfold trigPut; frame

@[simp] theorem trigGet_cfg : s.trigGet.cfg = s.cfg := by unfold trigGet; frame
@[simp] theorem trigGet_items : s.trigGet.items = s.items := by unfold trigGet; frame
@[simp] theorem trigGet_putQ : s.trigGet.putQ = s.putQ := by unfold trigGet; frame
@[simp] theorem trigGet_putRes : s.trigGet.putRes = s.putRes := by unfold trigGet; frame
@[simp] theorem trigGet_nextTid : s.trigGet.nextTid = s.nextTid := by unfold trigGet; frame
@[simp] theorem trigGet_now : s.trigGet.now = s.now := by unfold trigGet; frame
@[simp] theorem trigGet_timers : s.trigGet.timers = s.timers := by unfold trigGet; frame
@[simp] theorem trigGet_putLog : s.trigGet.putLog = s.putLog := by unfold trigGet; frame
@[simp] theorem trigGet_gotLog : s.trigGet.gotLog = s.gotLog := by unfold trigGet; frame

@[simp] theorem updLevel_cfg : s.updLevel.cfg = s.cfg := by unfold updLevel; frame
@[simp] theorem updLevel_items : s.updLevel.items = s.items := by unfold updLevel; frame
@[simp] theorem updLevel_putQ : s.updLevel.putQ = s.putQ := by unfold updLevel; frame
@[simp] theorem updLevel_putRes : s.updLevel.putRes = s.putRes := by unfold updLevel; frame
@[simp] theorem updLevel_getQ : s.updLevel.getQ = s.getQ := by unfold updLevel; frame
@[simp] theorem updLevel_getRes : s.updLevel.getRes = s.getRes := by unfold updLevel; frame
@[simp] theorem updLevel_resEv : s.updLevel.resEv = s.resEv := by unfold updLevel; frame
@[simp] theorem updLevel_nextTid : s.updLevel.nextTid = s.nextTid := by unfold updLevel; frame
@[simp] theorem updLevel_now : s.updLevel.now = s.now := by unfold updLevel; frame
@[simp] theorem updLevel_timers : s.updLevel.timers = s.timers := by unfold updLevel; frame
@[simp] theorem updLevel_putLog : s.updLevel.putLog = s.putLog := by unfold updLevel; frame
@[simp] theorem updLevel_gotLog : s.updLevel.gotLog = s.gotLog := by unfold updLevel; frame
@[simp] theorem updLevel_fired : s.updLevel.fired = s.fired := by unfold updLevel; frame

end trig

/-- What `trigPut` does, as a case split usable in proofs. -/
theorem trigPut_cases (s : PosStore) :
    (s.trigPut = s ∧ (s.putQ = [] ∨ s.admits = false)) ∨
    (∃ t q, s.putQ = t :: q ∧ s.admits = true ∧
      s.trigPut = { s with putQ := q, putRes := s.putRes ++ [t], fired := s.fired ++ [(t.id, s.now)] }) := by
  unfold trigPut
  split
  · left; simp_all
  · rename_i t q h
    split
    · right; exact ⟨t, q, h, by assumption, rfl⟩
    · left; simp_all

theorem trigGet_cases (s : PosStore) :
    (s.trigGet = s ∧ (s.getQ = [] ∨ ∃ t q, s.getQ = t :: q ∧ s.serves t = false)) ∨
    (∃ t q, s.getQ = t :: q ∧ s.serves t = true ∧
      s.trigGet = { s with getQ := q, getRes := s.getRes ++ [t], resEv := s.resEv ++ [t],
                           fired := s.fired ++ [(t.id, s.now)],
                           everRes := s.everRes ++ (s.items.drop s.resEv.length).head?.toList.map (·.seq) }) := by
  unfold trigGet
  split
  · left; simp_all
  · rename_i t q h
    split
    · right; exact ⟨t, q, h, by assumption, rfl⟩
    · left; refine ⟨rfl, Or.inr ⟨t, q, h, by simp_all⟩⟩

theorem admits_iff (s : PosStore) :
    s.admits = true ↔ ∀ c, s.cfg.cap = some c → s.putRes.length + s.items.length < c := by
  unfold admits
  split <;> simp_all

theorem serves_lt {s : PosStore} {t : Tok} (h : s.serves t = true) : s.getRes.length < s.items.length := by
  unfold serves at h
  simp at h
  exact h.1


theorem perm_move {α} (q r : List α) (t : α) : (q ++ (r ++ [t])).Perm (t :: (q ++ r)) := by
  rw [← List.append_assoc]; exact List.perm_append_singleton t (q ++ r)

def allToks (s : PosStore) : List Tok := s.putQ ++ s.putRes ++ s.getQ ++ s.getRes

theorem tokOK_iff (s : PosStore) :
    TokOK s ↔ ((allToks s).map Tok.id).Nodup ∧ ∀ t ∈ allToks s, t.id < s.nextTid := Iff.rfl

theorem tokOK_of_perm {s s' : PosStore} (hp : (allToks s').Perm (allToks s))
    (hn : s.nextTid ≤ s'.nextTid) (h : TokOK s) : TokOK s' := by
  rw [tokOK_iff] at *
  refine ⟨(hp.map _).nodup_iff.mpr h.1, ?_⟩
  intro t ht
  have := h.2 t (hp.mem_iff.mp ht)
  omega

theorem tokOK_of_sub {s s' : PosStore} (hp : (allToks s').Sublist (allToks s))
    (hn : s.nextTid ≤ s'.nextTid) (h : TokOK s) : TokOK s' := by
  rw [tokOK_iff] at *
  refine ⟨(hp.map _).nodup h.1, ?_⟩
  intro t ht
  have := h.2 t (hp.subset ht)
  omega

/-! ### `trigPut` / `trigGet` / `updLevel` preserve every piece -/

theorem trigPut_cap {s : PosStore} (h : CapOK s) : CapOK s.trigPut := by
  rcases trigPut_cases s with ⟨he, _⟩ | ⟨t, q, hq, ha, he⟩
  · rw [he]; exact h
  · rw [he]; intro c hc
    have := (admits_iff s).mp ha c hc
    simp; omega

theorem trigPut_allToks (s : PosStore) : (allToks s.trigPut).Perm (allToks s) := by
  rcases trigPut_cases s with ⟨he, _⟩ | ⟨t, q, hq, ha, he⟩
  · rw [he]
  · rw [he]; unfold allToks; simp only [hq]
    refine List.Perm.append_right _ (List.Perm.append_right _ ?_)
    simpa using perm_move q s.putRes t

theorem trigPut_tok {s : PosStore} (h : TokOK s) : TokOK s.trigPut :=
  tokOK_of_perm (trigPut_allToks s) (by simp) h

theorem trigPut_sorted {s : PosStore} (h : SortedOK s) : SortedOK s.trigPut := by
  rcases trigPut_cases s with ⟨he, _⟩ | ⟨t, q, hq, ha, he⟩
  · rw [he]; exact h
  · rw [he]; refine ⟨?_, h.2⟩
    have := h.1; rw [hq] at this
    exact (List.pairwise_cons.mp this).2

theorem trigPut_bind {s : PosStore} (h : BindOK s) : BindOK s.trigPut := by
  unfold BindOK at *; simpa using h

theorem trigPut_cons {s : PosStore} (h : ConsOK s) : ConsOK s.trigPut := by
  unfold ConsOK at *; simpa using h

/-- after `trigPut` no admissible space request is left at the head, provided at most one unit
    was free whenever two or more requests were waiting. -/
theorem trigPut_wake {s : PosStore}
    (h : ∀ t q, s.putQ = t :: q → q ≠ [] → ∀ c, s.cfg.cap = some c → c ≤ s.putRes.length + s.items.length + 1)
    (hinf : s.cfg.cap = none → s.putQ.length ≤ 1) : WakePutOK s.trigPut := by
  rcases trigPut_cases s with ⟨he, hq | hna⟩ | ⟨t, q, hq, ha, he⟩
  · rw [he]; intro hne; exact absurd hq hne
  · rw [he]; intro _; exact hna
  · rw [he]; intro hne
    simp only at hne
    unfold admits; simp only
    cases hc : s.cfg.cap with
    | none =>
      have := hinf hc; rw [hq] at this
      cases q with
      | nil => exact absurd rfl hne
      | cons _ _ => simp at this
    | some c =>
      have := h t q hq hne c hc
      simp; omega

theorem trigGet_cap {s : PosStore} (h : CapOK s) : CapOK s.trigGet := by
  intro c hc; simp at hc ⊢; exact h c hc

theorem trigGet_allToks (s : PosStore) : (allToks s.trigGet).Perm (allToks s) := by
  rcases trigGet_cases s with ⟨he, _⟩ | ⟨t, q, hq, ha, he⟩
  · rw [he]
  · rw [he]; unfold allToks; simp only [hq, List.append_assoc]
    refine List.Perm.append_left _ (List.Perm.append_left _ ?_)
    simpa using perm_move q s.getRes t

theorem trigGet_tok {s : PosStore} (h : TokOK s) : TokOK s.trigGet :=
  tokOK_of_perm (trigGet_allToks s) (by simp) h

theorem trigGet_sorted {s : PosStore} (h : SortedOK s) : SortedOK s.trigGet := by
  rcases trigGet_cases s with ⟨he, _⟩ | ⟨t, q, hq, ha, he⟩
  · rw [he]; exact h
  · rw [he]; refine ⟨h.1, ?_⟩
    have := h.2; rw [hq] at this
    exact (List.pairwise_cons.mp this).2

theorem trigGet_bind {s : PosStore} (h : BindOK s) (hl : s.resEv.length = s.getRes.length) :
    BindOK s.trigGet := by
  rcases trigGet_cases s with ⟨he, _⟩ | ⟨t, q, hq, ha, he⟩
  · rw [he]; exact h
  · rw [he]; unfold BindOK at *
    have := serves_lt ha
    refine ⟨List.Perm.append_right _ h.1, ?_⟩
    simp; omega

theorem trigGet_cons {s : PosStore} (h : ConsOK s) : ConsOK s.trigGet := by
  unfold ConsOK at *; simpa using h

theorem trigGet_wakePut {s : PosStore} (h : WakePutOK s) : WakePutOK s.trigGet := by
  unfold WakePutOK admits at *; simpa using h

theorem updLevel_inv {s : PosStore} (h : Inv s) : Inv s.updLevel := by
  obtain ⟨h1, h2, h3, h4, h5, h6⟩ := h
  refine ⟨?_, ?_, ?_, ?_, ?_, ?_⟩
  · intro c hc; simp at hc ⊢; exact h1 c hc
  · unfold BindOK at *; simpa using h2
  · unfold TokOK at *; simpa using h3
  · unfold SortedOK at *; simpa using h4
  · unfold WakePutOK admits at *; simpa using h5
  · unfold ConsOK at *; simpa using h6

theorem bind_len {s : PosStore} (h : BindOK s) : s.resEv.length = s.getRes.length := h.1.length_eq

end PosStore
end FsVerif
