/-
Machine automaton: the state representation the machine publishes (`rep` = (#workers processing, #workers blocked), the
argument of the next `update_state_rep` charge) IS the actual activity of its workers, after every activation that follows
the set-up period — for every activation sequence in which the node does not die of an IndexError.  Together with the
partition theorem (Proofs/MachineStatRun.lean) this is the "charged time = time actually spent" half of C17: the time
between two activations is charged to the states named by `rep`, and `rep` is what the workers are doing.
-/
import FsVerif.Proofs.MachineStatRun
namespace FsVerif
namespace MacState

theorem filter_set_len {l : List Worker} {i : Nat} {w w' : Worker} (h : l[i]? = some w) (p : Worker → Bool) (hp : p w' = p w) :
    ((l.set i w').filter p).length = (l.filter p).length := by
  induction l generalizing i with
  | nil => simp at h
  | cons x xs ih =>
    cases i with
    | zero =>
      simp at h; subst h
      simp only [List.set_cons_zero, List.filter_cons, hp]
      split <;> simp
    | succ n =>
      simp at h
      simp only [List.set_cons_succ, List.filter_cons]
      split <;> simp [ih h]

theorem count_setWorker {s : MacState} {i : Nat} {w w' : Worker} (h : s.workers[i]? = some w)
    (e1 : w'.inList = w.inList) (e2 : w'.blocked = w.blocked) : (s.setWorker i w').count = s.count := by
  unfold count setWorker
  simp only
  rw [filter_set_len h (fun w => w.inList && !w.blocked) (by simp [e1, e2]),
      filter_set_len h (fun w => w.inList && w.blocked) (by simp [e1, e2])]

theorem count_congr {s s' : MacState} (e : s'.workers = s.workers) : s'.count = s.count := by
  unfold count; rw [e]

/-- after the set-up period: a change time is recorded and the published representation is the workers' actual state -/
structure TRk (s : MacState) : Prop where
  last : s.last ≠ none
  rep : s.rep = some s.count

theorem TRk.congr {s s' : MacState} (h : TRk s) (e1 : s'.last = s.last) (e2 : s'.rep = s.rep) (e3 : s'.workers = s.workers) : TRk s' :=
  ⟨by rw [e1]; exact h.last, by rw [e2, count_congr e3]; exact h.rep⟩

/-- `update_state_rep` publishes the current counts, whatever was published before (once a representation and a change time exist) -/
theorem updRep_trk {s : MacState} (t : Nat) (hr : s.rep ≠ none) (hl : s.last ≠ none) : TRk (s.updRep t) := by
  unfold updRep
  cases hrep : s.rep with
  | none => exact absurd hrep hr
  | some pb =>
    cases hlast : s.last with
    | none => exact absurd hlast hl
    | some l =>
      obtain ⟨p, b⟩ := pb
      exact ⟨by simp, by simp [count]⟩

theorem TRk.upd {s : MacState} (h : TRk s) (t : Nat) : TRk (s.updRep t) :=
  updRep_trk t (by rw [h.rep]; simp) h.last

/-- a worker changes its program counter (or hands its item over): the counts do not move -/
theorem TRk.setW {s : MacState} (h : TRk s) {i : Nat} {w w' : Worker} (hw : s.workers[i]? = some w)
    (e1 : w'.inList = w.inList) (e2 : w'.blocked = w.blocked) : TRk (s.setWorker i w') :=
  ⟨h.last, by rw [count_setWorker hw e1 e2]; exact h.rep⟩

/-- a worker changes its flags and the representation is refreshed in the same step -/
theorem TRk.setW_upd {s : MacState} (h : TRk s) (i : Nat) (w' : Worker) (t : Nat) : TRk ((s.setWorker i w').updRep t) :=
  updRep_trk t (by show s.rep ≠ none; rw [h.rep]; simp) h.last


theorem setWorker_get {s : MacState} {i : Nat} {w : Worker} (hw : s.workers[i]? = some w) (w' : Worker) :
    (s.setWorker i w').workers[i]? = some w' := by
  have hlt : i < s.workers.length := by
    rcases Nat.lt_or_ge i s.workers.length with h | h
    · exact h
    · rw [List.getElem?_eq_none h] at hw; cases hw
  simp [setWorker, List.getElem?_set_self hlt]

theorem TRk.release {s : MacState} (h : TRk s) {i : Nat} {w0 w : Worker} (hw : s.workers[i]? = some w0)
    (e1 : w.inList = w0.inList) (e2 : w.blocked = w0.blocked) : TRk (s.release i w) := by
  unfold MacState.release
  exact (h.setW hw (w' := { w with pc := .released, has := false }) e1 e2).congr rfl rfl rfl

theorem TRk.spawnPush {s : MacState} (h : TRk s) {i : Nat} {w0 w : Worker} (hw : s.workers[i]? = some w0) (edge : Nat) (fa : Bool)
    (e1 : w.inList = w0.inList) (e2 : w0.blocked = true) : TRk (s.spawnPush i w edge fa).1 := by
  unfold MacState.spawnPush
  simp only
  have h0 : TRk ({ s with pushes := s.pushes ++ [({ ord := s.nextProc, edge := edge, item := w.item } : MPush)], nextProc := s.nextProc + 1 } : MacState) := h.congr rfl rfl rfl
  exact h0.setW (w := w0) hw e1 (by rw [e2])

/-- the worker `w` at position `i` turns blocked and the representation is refreshed -/
theorem TRk.block {s0 : MacState} (h0 : TRk s0) {i : Nat} {w : Worker} (hw : s0.workers[i]? = some w) (t : Nat) :
    TRk ((s0.setWorker i { w with blocked := true }).updRep t) ∧
    ((s0.setWorker i { w with blocked := true }).updRep t).workers[i]? = some { w with blocked := true } :=
  ⟨h0.setW_upd i _ t, by rw [updRep_workers]; exact setWorker_get hw _⟩

/-- one activation of a worker process: if it does not die of the IndexError of `time_per_work_occupancy[num_workers]`, the published
    representation is the actual state of the workers afterwards -/
theorem worker_trk {s : MacState} {t : Nat} (i : Nat) (w : Worker) (a : Ans) (hw : s.workers[i]? = some w) (h : TRk s)
    (hq : Call.crash .index ∉ (s.worker i w t a).2) : TRk (s.worker i w t a).1 := by
  have hwu : (s.updRep t).workers[i]? = some w := by rw [updRep_workers]; exact hw
  have frame : ∀ s0 : MacState, s0.last = s.last → s0.rep = s.rep → s0.workers = s.workers → TRk s0 ∧ s0.workers[i]? = some w :=
    fun s0 e1 e2 e3 => ⟨h.congr e1 e2 e3, by rw [e3]; exact hw⟩
  unfold worker
  split
  · refine TRk.setW (w := w) (h.upd t) hwu rfl rfl
  · split
    · split
      · obtain ⟨h2, hw2⟩ := (h.upd t).block hwu t
        refine TRk.setW (w := { w with blocked := true }) ?_ ?_ rfl rfl
        · exact h2.congr rfl rfl rfl
        · exact hw2
      · simp only
        split
        · rename_i j _
          obtain ⟨f1, f2⟩ := frame { s with outsel := s.outsel ++ [j] } rfl rfl rfl
          obtain ⟨h2, hw2⟩ := (f1.upd t).block (by rw [updRep_workers]; exact f2) t
          exact h2.spawnPush hw2 j true rfl rfl
        · refine TRk.release (w0 := w) ?_ ?_ rfl rfl
          · exact h.congr rfl rfl rfl
          · exact hw
    · simp only
      split
      · exact h.congr rfl rfl rfl
      · split
        · refine TRk.setW (w := w) ?_ ?_ rfl rfl
          · exact h.congr rfl rfl rfl
          · exact hw
        · split
          · refine TRk.setW (w := { w with blocked := true }) ?_ ?_ rfl rfl
            · refine TRk.congr (s := (MacState.setWorker _ i { w with blocked := true }).updRep t) ?_ rfl rfl rfl
              refine (TRk.block ?_ ?_ t).1
              · exact h.congr rfl rfl rfl
              · exact hw
            · show (MacState.updRep (MacState.setWorker _ i { w with blocked := true }) t).workers[i]? = _
              rw [updRep_workers]; exact setWorker_get (s := { s with rrOut := _, outsel := _ }) hw _
          · split
            · refine TRk.spawnPush (w0 := { w with blocked := true }) ?_ ?_ _ false rfl rfl
              · refine (TRk.block ?_ ?_ t).1
                · exact h.congr rfl rfl rfl
                · exact hw
              · rw [updRep_workers]; exact setWorker_get (s := { s with rrOut := _, outsel := _ }) hw _
            · refine TRk.release (w0 := { w with blocked := true }) ?_ ?_ rfl rfl
              · refine TRk.congr (s := (MacState.setWorker _ i { w with blocked := true }).updRep t) ?_ rfl rfl rfl
                refine (TRk.block ?_ ?_ t).1
                · exact h.congr rfl rfl rfl
                · exact hw
              · show (MacState.updRep (MacState.setWorker _ i { w with blocked := true }) t).workers[i]? = _
                rw [updRep_workers]; exact setWorker_get (s := { s with rrOut := _, outsel := _ }) hw _
            · exact h.congr rfl rfl rfl
  · split
    · refine TRk.release (w0 := w) ?_ ?_ rfl rfl
      · refine TRk.upd ?_ t
        exact h.congr rfl rfl rfl
      · rw [updRep_workers]; exact hw
    · exact h.setW hw rfl rfl
  · split
    · exact h.congr rfl rfl rfl
    · refine TRk.release (w0 := w) ?_ ?_ rfl rfl
      · exact h.congr rfl rfl rfl
      · exact hw
  · split
    · split
      · exact h.congr rfl rfl rfl
      · simp only
        split
        · refine TRk.release (w0 := w) ?_ ?_ rfl rfl
          · refine TRk.upd ?_ t
            exact h.congr rfl rfl rfl
          · rw [updRep_workers]; exact hw
        · refine TRk.release (w0 := w) ?_ ?_ rfl rfl
          · exact h.congr rfl rfl rfl
          · exact hw
    · exact h.congr rfl rfl rfl
  · rename_i hpc
    simp only
    split
    · rename_i hi
      exfalso; apply hq
      unfold worker
      simp only [hpc]
      simp [hi]
    · have hg : s.grantQueued.rep = s.rep ∧ s.grantQueued.last = s.last := by
        unfold grantQueued; split <;> exact ⟨rfl, rfl⟩
      refine updRep_trk t ?_ ?_
      · show s.grantQueued.rep ≠ none; rw [hg.1, h.rep]; simp
      · show s.grantQueued.last ≠ none; rw [hg.2]; exact h.last
  · exact h.congr rfl rfl rfl
  · exact h.congr rfl rfl rfl


theorem pushStep_trk {s : MacState} (p : MPush) (a : Ans) (h : TRk s) : TRk (s.pushStep p a).1 := by
  unfold pushStep
  split
  · exact h.congr rfl rfl rfl
  · split
    · exact h.congr rfl rfl rfl
    · split
      · exact h.congr rfl rfl rfl
      · rename_i i _
        split
        · exact h.congr rfl rfl rfl
        · rename_i w hw
          refine TRk.setW (w := w) ?_ ?_ rfl rfl
          · exact h.congr rfl rfl rfl
          · exact hw

theorem requestSlot_trk {s : MacState} (t : Nat) (h : TRk s) : TRk (s.requestSlot t) := by
  unfold requestSlot
  simp only
  split
  · exact (h.upd t).congr rfl rfl rfl
  · exact (h.upd t).congr rfl rfl rfl

theorem afterPull_trk {s : MacState} (t it : Nat) (a : Ans) (pre : List Call) (h : TRk s) : TRk (s.afterPull t it a pre).1 := by
  unfold afterPull
  split
  · simp only
    refine requestSlot_trk t ?_
    refine updRep_trk t ?_ ?_
    · show s.rep ≠ none; rw [h.rep]; simp
    · exact h.last
  · exact h.congr rfl rfl rfl

/-- the behaviour process, after the set-up period -/
theorem behaviour_trk {s : MacState} (t : Nat) (a : Ans) (h : TRk s) (hb : s.bpc ≠ .start ∧ s.bpc ≠ .setupWait) :
    TRk (s.behaviour t a).1 := by
  unfold behaviour
  split
  · rename_i hpc; exact absurd hpc hb.1
  · rename_i hpc; exact absurd hpc hb.2
  · split
    · exact h.congr rfl rfl rfl
    · split
      · exact h.congr rfl rfl rfl
      · split
        · exact h.congr rfl rfl rfl
        · simp only
          split
          · exact h.congr rfl rfl rfl
          · split
            · exact h.congr rfl rfl rfl
            · exact h.congr rfl rfl rfl
  · split
    · exact afterPull_trk t _ a _ (h.congr rfl rfl rfl)
    · exact h.congr rfl rfl rfl
    · exact h.congr rfl rfl rfl
  · split
    · exact h.congr rfl rfl rfl
    · split
      · exact afterPull_trk t _ a _ (h.congr rfl rfl rfl)
      · exact h.congr rfl rfl rfl
  · exact h.congr rfl rfl rfl

/-- the end of the set-up period establishes it: no worker exists yet, the representation is (0, 0) -/
theorem behaviour_setup_trk {s : MacState} (t : Nat) (a : Ans) (hpc : s.bpc = .setupWait) (hw : s.workers = []) :
    TRk (s.behaviour t a).1 := by
  unfold behaviour
  simp only [hpc]
  refine requestSlot_trk t ?_
  unfold updRep
  simp only
  cases hl : s.last with
  | none => exact ⟨by simp, by simp [count, hw]⟩
  | some l => exact ⟨by simp, by simp [count, hw]⟩

/-- no activation dies of the IndexError of `time_per_work_occupancy[num_workers]` -/
def NoIndexCrash (s : MacState) : List Act → Prop
  | [] => True
  | x :: xs => Call.crash .index ∉ (s.step x.proc x.t x.ans).2 ∧ NoIndexCrash (s.step x.proc x.t x.ans).1 xs

/-- run-level invariant: before the set-up period has ended nothing is recorded; afterwards the representation is truthful -/
def TR (s : MacState) : Prop := s.last = none ∨ TRk s

theorem step_tr {s : MacState} (proc t : Nat) (a : Ans) (hm : MR s) (h : TR s)
    (hq : Call.crash .index ∉ (s.step proc t a).2) : TR (s.step proc t a).1 := by
  unfold step at hq ⊢
  by_cases hlt : t < s.now
  · simp only [hlt, ↓reduceIte]
    rcases h with h | h
    · exact Or.inl h
    · exact Or.inr (h.congr rfl rfl rfl)
  · simp only [hlt, ↓reduceIte] at hq ⊢
    rcases h with hl | h
    · -- still in the set-up period: only the behaviour process exists
      obtain ⟨hpc, hw, hp⟩ := hm.early hl
      by_cases h0 : proc = 0
      · simp only [h0, ↓reduceIte]
        rcases hpc with hpc | hpc | hpc
        · left; unfold behaviour; simp only [hpc]; split <;> exact hl
        · right; exact behaviour_setup_trk (s := { s with now := t }) t a hpc hw
        · left; unfold behaviour; simp only [hpc]; exact hl
      · simp only [h0, ↓reduceIte, hw, hp, List.findIdx?_nil, List.find?_nil]
        exact Or.inl hl
    · have hb := hm.late h.last
      have h' : TRk ({ s with now := t } : MacState) := h.congr rfl rfl rfl
      right
      by_cases h0 : proc = 0
      · simp only [h0, ↓reduceIte]
        exact behaviour_trk t a h' hb
      · simp only [h0, ↓reduceIte] at hq ⊢
        cases hf : s.workers.findIdx? (fun w => w.ord = proc) with
        | some i =>
          simp only [hf] at hq ⊢
          cases hw : s.workers[i]? with
          | some w =>
            simp only [hw] at hq ⊢
            exact worker_trk i w a (s := { s with now := t }) hw h' hq
          | none =>
            simp only [hw]
            exact h'.congr rfl rfl rfl
        | none =>
          simp only [hf]
          split
          · exact pushStep_trk _ a h'
          · exact h'.congr rfl rfl rfl

theorem runActs_tr (acts : List Act) : ∀ {s : MacState}, MR s → TR s → NoIndexCrash s acts → TR (runActs s acts) := by
  induction acts with
  | nil => intro s _ h _; exact h
  | cons x xs ih =>
    intro s hm h hq
    exact ih (step_mr x.proc x.t x.ans hm) (step_tr x.proc x.t x.ans hm h hq.1) hq.2

end MacState
end FsVerif
