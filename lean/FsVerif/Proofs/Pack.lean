/-
Invariants of the Combiner / Splitter automaton (Model/Node/Pack.lean), for every activation
sequence and every answer of the environment.
-/
import FsVerif.Model.Node.Pack
namespace FsVerif
namespace PackState

/-! ### the ValueError branch of the state check is dead -/

theorem filter_split_len {α} (l : List α) (p q : α → Bool) :
    (l.filter (fun x => p x && !q x)).length + (l.filter (fun x => p x && q x)).length = (l.filter p).length := by
  induction l with
  | nil => rfl
  | cons x xs ih =>
    simp only [List.filter_cons]
    cases hp : p x <;> cases hq : q x <;> simp <;> omega

theorem chk_isSome (s : PackState) (t : Nat) : (s.chk t).isSome = true := by
  have h := filter_split_len s.workers (·.inList) (·.blocked)
  unfold chk count
  simp only
  split
  · rfl
  · split
    · rfl
    · split
      · rfl
      · rename_i h1 h2 h3
        exfalso
        apply h3
        have : (s.workers.filter (fun w => w.inList && !w.blocked)).length = 0 := by omega
        omega

theorem chk!_eq (s : PackState) (t : Nat) : ∃ c, s.chk! t = { s with clock := c } := by
  unfold chk! chk
  simp only
  split
  · exact ⟨_, rfl⟩
  · split
    · exact ⟨_, rfl⟩
    · split
      · exact ⟨_, rfl⟩
      · exact ⟨s.clock, rfl⟩


/-! ### the unit-accounting invariant -/

structure PInv (s : PackState) : Prop where
  w1 : ∀ w ∈ s.workers, w.hist.map Prod.fst ++ w.todo = w.plan
  w2 : ∀ w ∈ s.workers, ∀ u, w.cur = some u → (u, true) ∈ w.hist
  g1 : ∀ u ∈ s.emitted, ∃ w ∈ s.workers, (u, true) ∈ w.hist
  g2 : ∀ p ∈ s.pushes, ∃ w ∈ s.workers, (p.unit, true) ∈ w.hist
  g3 : ∀ u ∈ s.droppedU, ∃ w ∈ s.workers, (u, false) ∈ w.hist
  g4 : s.discarded = s.droppedU.length
  g5 : s.cfg.blocking = true → ∀ w ∈ s.workers, ∀ x ∈ w.hist, x.2 = true

theorem init_pinv (cfg : PackCfg) : PInv (init cfg) := by
  constructor <;> simp [init]

/-- states that agree on the fields the invariant reads -/
theorem PInv.of_eq {s s' : PackState} (h : PInv s) (hw : s'.workers = s.workers) (hp : s'.pushes = s.pushes)
    (he : s'.emitted = s.emitted) (hd : s'.droppedU = s.droppedU) (hn : s'.discarded = s.discarded)
    (hc : s'.cfg = s.cfg) : PInv s' := by
  constructor
  · rw [hw]; exact h.w1
  · rw [hw]; exact h.w2
  · rw [hw, he]; exact h.g1
  · rw [hw, hp]; exact h.g2
  · rw [hw, hd]; exact h.g3
  · rw [hn, hd]; exact h.g4
  · rw [hw, hc]; exact h.g5

theorem mem_set_cases {α} {l : List α} {i : Nat} {a x : α} (h : x ∈ l.set i a) : x = a ∨ x ∈ l := by
  rcases List.mem_or_eq_of_mem_set h with h | h
  · exact Or.inr h
  · exact Or.inl h

theorem exists_hist_set {ws : List PWorker} {i : Nat} {w w' : PWorker} {x : Unit' × Bool}
    (hi : ws[i]? = some w) (hsub : ∀ y ∈ w.hist, y ∈ w'.hist)
    (h : ∃ v ∈ ws, x ∈ v.hist) : ∃ v ∈ ws.set i w', x ∈ v.hist := by
  obtain ⟨v, hv, hx⟩ := h
  obtain ⟨j, hj, hjv⟩ := List.mem_iff_getElem.mp hv
  have hil : i < ws.length := by
    rcases Nat.lt_or_ge i ws.length with h | h
    · exact h
    · rw [List.getElem?_eq_none h] at hi; cases hi
  by_cases hji : j = i
  · subst hji
    have : ws[j] = w := by
      have := List.getElem?_eq_getElem hj
      rw [this] at hi; exact Option.some.inj hi
    refine ⟨w', ?_, hsub _ (by rw [← this, hjv]; exact hx)⟩
    exact List.mem_iff_getElem.mpr ⟨j, by simpa using hj, by simp⟩
  · refine ⟨v, ?_, hx⟩
    refine List.mem_iff_getElem.mpr ⟨j, by simpa using hj, ?_⟩
    rw [List.getElem_set_ne (by omega)]; exact hjv

/-- the generic update: worker `i` is replaced by a worker whose history extends the old one -/
theorem PInv.upd {s s' : PackState} {i : Nat} {w w' : PWorker} (h : PInv s) (hi : s.workers[i]? = some w)
    (hw : s'.workers = s.workers.set i w') (hc : s'.cfg = s.cfg)
    (hsub : ∀ x ∈ w.hist, x ∈ w'.hist)
    (hW1 : w'.hist.map Prod.fst ++ w'.todo = w'.plan)
    (hW2 : ∀ u, w'.cur = some u → (u, true) ∈ w'.hist)
    (hE : ∀ u ∈ s'.emitted, u ∈ s.emitted ∨ (u, true) ∈ w'.hist)
    (hP : ∀ p ∈ s'.pushes, p ∈ s.pushes ∨ (p.unit, true) ∈ w'.hist)
    (hD : ∀ u ∈ s'.droppedU, u ∈ s.droppedU ∨ (u, false) ∈ w'.hist)
    (h4 : s'.discarded = s'.droppedU.length)
    (h5 : s.cfg.blocking = true → ∀ x ∈ w'.hist, x.2 = true) : PInv s' := by
  have hil : i < s.workers.length := by
    rcases Nat.lt_or_ge i s.workers.length with h | h
    · exact h
    · rw [List.getElem?_eq_none h] at hi; cases hi
  have hmem : w' ∈ s.workers.set i w' := List.mem_iff_getElem.mpr ⟨i, by simpa using hil, by simp⟩
  constructor
  · intro v hv; rw [hw] at hv
    rcases mem_set_cases hv with rfl | hv
    · exact hW1
    · exact h.w1 v hv
  · intro v hv; rw [hw] at hv
    rcases mem_set_cases hv with rfl | hv
    · exact hW2
    · exact h.w2 v hv
  · intro u hu; rw [hw]
    rcases hE u hu with hu | hu
    · exact exists_hist_set hi hsub (h.g1 u hu)
    · exact ⟨w', hmem, hu⟩
  · intro p hp; rw [hw]
    rcases hP p hp with hp | hp
    · exact exists_hist_set hi hsub (h.g2 p hp)
    · exact ⟨w', hmem, hp⟩
  · intro u hu; rw [hw]
    rcases hD u hu with hu | hu
    · exact exists_hist_set hi hsub (h.g3 u hu)
    · exact ⟨w', hmem, hu⟩
  · exact h4
  · intro hb v hv; rw [hw] at hv; rw [hc] at hb
    rcases mem_set_cases hv with rfl | hv
    · exact h5 hb
    · exact h.g5 hb v hv


/-! ### frame facts -/

@[simp] theorem chk!_workers (s : PackState) (t : Nat) : (s.chk! t).workers = s.workers := by
  obtain ⟨c, h⟩ := chk!_eq s t; rw [h]
@[simp] theorem chk!_pushes (s : PackState) (t : Nat) : (s.chk! t).pushes = s.pushes := by
  obtain ⟨c, h⟩ := chk!_eq s t; rw [h]
@[simp] theorem chk!_emitted (s : PackState) (t : Nat) : (s.chk! t).emitted = s.emitted := by
  obtain ⟨c, h⟩ := chk!_eq s t; rw [h]
@[simp] theorem chk!_droppedU (s : PackState) (t : Nat) : (s.chk! t).droppedU = s.droppedU := by
  obtain ⟨c, h⟩ := chk!_eq s t; rw [h]
@[simp] theorem chk!_discarded (s : PackState) (t : Nat) : (s.chk! t).discarded = s.discarded := by
  obtain ⟨c, h⟩ := chk!_eq s t; rw [h]
@[simp] theorem chk!_cfg (s : PackState) (t : Nat) : (s.chk! t).cfg = s.cfg := by
  obtain ⟨c, h⟩ := chk!_eq s t; rw [h]
@[simp] theorem chk!_bpc (s : PackState) (t : Nat) : (s.chk! t).bpc = s.bpc := by
  obtain ⟨c, h⟩ := chk!_eq s t; rw [h]
@[simp] theorem chk!_pulled (s : PackState) (t : Nat) : (s.chk! t).pulledPallets = s.pulledPallets := by
  obtain ⟨c, h⟩ := chk!_eq s t; rw [h]
@[simp] theorem chk!_rrOut (s : PackState) (t : Nat) : (s.chk! t).rrOut = s.rrOut := by
  obtain ⟨c, h⟩ := chk!_eq s t; rw [h]

/-- the fields the accounting reads, for two states -/
structure Same (s s' : PackState) : Prop where
  pushes : s'.pushes = s.pushes
  emitted : s'.emitted = s.emitted
  droppedU : s'.droppedU = s.droppedU
  discarded : s'.discarded = s.discarded
  cfg : s'.cfg = s.cfg
  bpc : s'.bpc = s.bpc
  pulled : s'.pulledPallets = s.pulledPallets

@[simp] theorem chk!_nextTok (s : PackState) (t : Nat) : (s.chk! t).nextTok = s.nextTok := by
  obtain ⟨c, h⟩ := chk!_eq s t; rw [h]
@[simp] theorem chk!_nextProc (s : PackState) (t : Nat) : (s.chk! t).nextProc = s.nextProc := by
  obtain ⟨c, h⟩ := chk!_eq s t; rw [h]

/-- what a worker looks like after a decision: history extended, the rest of the plan still to do -/
structure Stepped (w w' : PWorker) (u : Unit') (rest : List Unit') (put : Bool) : Prop where
  hist : w'.hist = w.hist ++ [(u, put)]
  todo : w'.todo = rest
  plan : w'.plan = w.plan
  cur : ∀ v, w'.cur = some v → v = u ∧ put = true

theorem startAny_shape (s : PackState) (i : Nat) (w : PWorker) (t : Nat) (u : Unit') (rest : List Unit') :
    ∃ w', (s.startAny i w t u rest).1.workers = s.workers.set i w' ∧ Stepped w w' u rest true ∧
      Same s (s.startAny i w t u rest).1 := by
  refine ⟨{ markW w u rest with pc := .outAny ((List.range s.cfg.nout).map (· + s.nextTok)) }, ?_, ?_, ?_⟩
  · simp [startAny, setW]
  · constructor <;> simp [markW]
  · constructor <;> simp [startAny, setW]

theorem startTok_shape (s : PackState) (i : Nat) (w : PWorker) (t : Nat) (u : Unit') (rest : List Unit') (r : Route) (j : Nat) :
    ∃ w', (s.startTok i w t u rest r j).1.workers = s.workers.set i w' ∧ Stepped w w' u rest true ∧
      Same s (s.startTok i w t u rest r j).1 := by
  refine ⟨{ markW w u rest with pc := .outTok j s.nextTok }, ?_, ?_, ?_⟩
  · simp [startTok, setW, commit]
  · constructor <;> simp [markW]
  · constructor <;> simp [startTok, setW, commit]

theorem startPush_shape (s : PackState) (i : Nat) (w : PWorker) (t : Nat) (u : Unit') (rest : List Unit') (r : Route) (j : Nat) (fa : Bool) :
    ∃ w' p, (s.startPush i w t u rest r j fa).1.workers = s.workers.set i w' ∧ Stepped w w' u rest true ∧
      (s.startPush i w t u rest r j fa).1.pushes = s.pushes ++ [p] ∧ p.unit = u ∧
      (s.startPush i w t u rest r j fa).1.emitted = s.emitted ∧ (s.startPush i w t u rest r j fa).1.droppedU = s.droppedU ∧
      (s.startPush i w t u rest r j fa).1.discarded = s.discarded ∧ (s.startPush i w t u rest r j fa).1.cfg = s.cfg ∧
      (s.startPush i w t u rest r j fa).1.bpc = s.bpc ∧ (s.startPush i w t u rest r j fa).1.pulledPallets = s.pulledPallets := by
  refine ⟨{ markW w u rest with cur := none, pc := .pushWait s.nextProc fa }, { ord := s.nextProc, edge := j, unit := u }, ?_, ?_, ?_⟩
  · cases fa <;> simp [startPush, setW, commit]
  · constructor <;> simp [markW]
  · cases fa <;> simp [startPush, setW, commit]

theorem dropUnit_shape (s : PackState) (i : Nat) (w : PWorker) (t : Nat) (u : Unit') (rest : List Unit') (r : Route) (mark : Bool) :
    (s.dropUnit i w t u rest r mark).1.workers = s.workers.set i (s.dropUnit i w t u rest r mark).2 ∧
      Stepped w (s.dropUnit i w t u rest r mark).2 u rest false ∧ (s.dropUnit i w t u rest r mark).2.cur = none ∧
      (s.dropUnit i w t u rest r mark).1.pushes = s.pushes ∧
      (s.dropUnit i w t u rest r mark).1.emitted = s.emitted ∧ (s.dropUnit i w t u rest r mark).1.droppedU = s.droppedU ++ [u] ∧
      (s.dropUnit i w t u rest r mark).1.discarded = s.discarded + 1 ∧ (s.dropUnit i w t u rest r mark).1.cfg = s.cfg ∧
      (s.dropUnit i w t u rest r mark).1.bpc = s.bpc ∧ (s.dropUnit i w t u rest r mark).1.pulledPallets = s.pulledPallets := by
  refine ⟨?_, ?_, ?_⟩
  · cases mark <;> simp [dropUnit, setW, commit]
  · constructor <;> simp [dropUnit]
  · cases mark <;> simp [dropUnit, setW, commit]

/-- a blocking node never decides to drop -/
theorem route_drop_nonblocking (cfg : PackCfg) (rr : Nat) (cans : List Bool) (sels : List Int) (m : Bool)
    (h : (route cfg rr cans sels).dec = .drop m) : cfg.blocking = false := by
  unfold route at h
  cases hb : cfg.blocking
  · rfl
  · exfalso
    rw [hb] at h
    split at h
    · simp at h
    · simp only at h
      split at h
      · simp at h
      · split at h
        · simp at h
        · simp at h

theorem mem_of_getElem? {α} {l : List α} {i : Nat} {a : α} (h : l[i]? = some a) : a ∈ l :=
  List.mem_of_getElem? h

theorem map_plan_set {ws : List PWorker} {i : Nat} {w w' : PWorker} (hi : ws[i]? = some w) (hp : w'.plan = w.plan) :
    (ws.set i w').map (·.plan) = ws.map (·.plan) := by
  apply List.ext_getElem?
  intro j
  by_cases hji : i = j
  · subst hji
    simp only [List.getElem?_map, List.getElem?_set_self', hi, Option.map_some, hp]
    rcases h : ws[i]? with _ | x
    · rw [h] at hi; cases hi
    · simp [hp]
  · simp [List.getElem?_map, List.getElem?_set_ne hji]

/-- what a worker-side step guarantees -/
structure EL (s s' : PackState) : Prop where
  pinv : PInv s'
  cfg : s'.cfg = s.cfg
  bpc : s'.bpc = s.bpc
  pulled : s'.pulledPallets = s.pulledPallets
  plans : s'.workers.map (·.plan) = s.workers.map (·.plan)

theorem PInv.stepped {s s' : PackState} {i : Nat} {w w' : PWorker} {u : Unit'} {rest : List Unit'} {put : Bool}
    (h : PInv s) (hi : s.workers[i]? = some w) (htodo : w.todo = u :: rest)
    (hw : s'.workers = s.workers.set i w') (hst : Stepped w w' u rest put) (hc : s'.cfg = s.cfg)
    (hE : s'.emitted = s.emitted)
    (hP : ∀ p ∈ s'.pushes, p ∈ s.pushes ∨ (p.unit = u ∧ put = true))
    (hD : ∀ v ∈ s'.droppedU, v ∈ s.droppedU ∨ (v = u ∧ put = false))
    (h4 : s'.discarded = s'.droppedU.length)
    (h5 : put = false → s.cfg.blocking = false) : PInv s' := by
  have hwm := mem_of_getElem? hi
  refine h.upd hi hw hc ?_ ?_ ?_ ?_ ?_ ?_ h4 ?_
  · intro x hx; rw [hst.hist]; exact List.mem_append_left _ hx
  · rw [hst.hist, hst.todo, hst.plan, ← h.w1 w hwm, htodo]; simp
  · intro v hv
    obtain ⟨rfl, rfl⟩ := hst.cur v hv
    rw [hst.hist]; simp
  · intro v hv; rw [hE] at hv; exact Or.inl hv
  · intro p hp
    rcases hP p hp with hp | ⟨rfl, rfl⟩
    · exact Or.inl hp
    · right; rw [hst.hist]; simp
  · intro v hv
    rcases hD v hv with hv | ⟨rfl, rfl⟩
    · exact Or.inl hv
    · right; rw [hst.hist]; simp
  · intro hb x hx
    rw [hst.hist] at hx
    rcases List.mem_append.mp hx with hx | hx
    · exact h.g5 hb w hwm x hx
    · simp at hx; subst hx
      cases put
      · rw [h5 rfl] at hb; cases hb
      · rfl

theorem emitLoop_el (t : Nat) : ∀ (todo : List Unit') (s : PackState) (i : Nat) (w : PWorker) (cans : List Bool) (sels : List Int)
    (acc : List Call), PInv s → s.workers[i]? = some w → w.todo = todo →
    EL s (s.emitLoop i w t todo cans sels acc).1 := by
  intro todo
  induction todo with
  | nil =>
    intro s i w cans sels acc h hi htodo
    have hwm := mem_of_getElem? hi
    simp only [emitLoop, releaseW, setW]
    refine ⟨?_, rfl, rfl, rfl, ?_⟩
    · refine h.upd (w' := { w with todo := [], pc := .released, cur := none }) hi rfl rfl (fun x hx => hx) ?_ ?_
        (fun u hu => Or.inl hu) (fun p hp => Or.inl hp) (fun u hu => Or.inl hu) h.g4 (fun hb => h.g5 hb w hwm)
      · have := h.w1 w hwm; rw [htodo] at this; simpa using this
      · intro u hu; cases hu
    · exact map_plan_set hi rfl
  | cons u rest ih =>
    intro s i w cans sels acc h hi htodo
    have hwm := mem_of_getElem? hi
    rw [emitLoop]
    generalize hr : route s.cfg s.rrOut cans sels = r
    simp only
    split
    · -- badAct
      exact ⟨h.of_eq rfl rfl rfl rfl rfl rfl, rfl, rfl, rfl, rfl⟩
    · -- crash
      simp only [setW, commit]
      refine ⟨?_, rfl, rfl, rfl, map_plan_set hi rfl⟩
      refine h.upd (w' := { w with pc := .crashed, cur := none, todo := u :: rest }) hi rfl rfl (fun x hx => hx) ?_ ?_
        (fun u hu => Or.inl hu) (fun p hp => Or.inl hp) (fun u hu => Or.inl hu) h.g4 (fun hb => h.g5 hb w hwm)
      · have := h.w1 w hwm; rw [htodo] at this; exact this
      · intro v hv; cases hv
    · -- any
      obtain ⟨w', hw, hst, hsame⟩ := startAny_shape s i w t u rest
      refine ⟨?_, hsame.cfg, hsame.bpc, hsame.pulled, ?_⟩
      · exact h.stepped hi htodo hw hst hsame.cfg hsame.emitted (fun p hp => Or.inl (hsame.pushes ▸ hp))
          (fun v hv => Or.inl (hsame.droppedU ▸ hv)) (by rw [hsame.discarded, hsame.droppedU]; exact h.g4) (fun hh => by cases hh)
      · rw [hw]; exact map_plan_set hi hst.plan
    · -- tok
      rename_i j hd
      obtain ⟨w', hw, hst, hsame⟩ := startTok_shape s i w t u rest r j
      refine ⟨?_, hsame.cfg, hsame.bpc, hsame.pulled, ?_⟩
      · exact h.stepped hi htodo hw hst hsame.cfg hsame.emitted (fun p hp => Or.inl (hsame.pushes ▸ hp))
          (fun v hv => Or.inl (hsame.droppedU ▸ hv)) (by rw [hsame.discarded, hsame.droppedU]; exact h.g4) (fun hh => by cases hh)
      · rw [hw]; exact map_plan_set hi hst.plan
    · -- push
      rename_i j fa hd
      obtain ⟨w', p, hw, hst, hp, hpu, he, hdr, hdi, hc, hb, hpl⟩ := startPush_shape s i w t u rest r j fa
      refine ⟨?_, hc, hb, hpl, ?_⟩
      · refine h.stepped hi htodo hw hst hc he ?_ (fun v hv => Or.inl (hdr ▸ hv)) (by rw [hdi, hdr]; exact h.g4) (fun hh => by cases hh)
        intro q hq; rw [hp] at hq
        rcases List.mem_append.mp hq with hq | hq
        · exact Or.inl hq
        · simp at hq; subst hq; exact Or.inr ⟨hpu, rfl⟩
      · rw [hw]; exact map_plan_set hi hst.plan
    · -- drop
      rename_i mark hd
      obtain ⟨hw, hst, hcur', hp, he, hdr, hdi, hc, hb, hpl⟩ := dropUnit_shape s i w t u rest r mark
      have hnb : s.cfg.blocking = false := route_drop_nonblocking s.cfg s.rrOut cans sels mark (by rw [hr]; exact hd)
      have hil : i < s.workers.length := by
        rcases Nat.lt_or_ge i s.workers.length with h | h
        · exact h
        · rw [List.getElem?_eq_none h] at hi; cases hi
      have h' : PInv (s.dropUnit i w t u rest r mark).1 := by
        refine h.stepped hi htodo hw hst hc he (fun p hp' => Or.inl (hp ▸ hp')) ?_ (by rw [hdi, hdr, h.g4]; simp) (fun _ => hnb)
        intro v hv; rw [hdr] at hv
        rcases List.mem_append.mp hv with hv | hv
        · exact Or.inl hv
        · simp at hv; exact Or.inr ⟨hv, rfl⟩
      have hi' : (s.dropUnit i w t u rest r mark).1.workers[i]? = some (s.dropUnit i w t u rest r mark).2 := by
        rw [hw]; simp [hil]
      have := ih (s.dropUnit i w t u rest r mark).1 i (s.dropUnit i w t u rest r mark).2 r.cans r.sels (acc ++ r.calls) h' hi' hst.todo
      refine ⟨this.pinv, this.cfg.trans hc, this.bpc.trans hb, this.pulled.trans hpl, ?_⟩
      rw [this.plans, hw]; exact map_plan_set hi hst.plan

theorem el_same {s s' : PackState} {i : Nat} {w w' : PWorker} (h : PInv s) (hi : s.workers[i]? = some w)
    (hh : w'.hist = w.hist) (ht : w'.todo = w.todo) (hp : w'.plan = w.plan) (hc : w'.cur = w.cur)
    (hw : s'.workers = s.workers.set i w') (hs : Same s s') : EL s s' := by
  have hwm := mem_of_getElem? hi
  refine ⟨?_, hs.cfg, hs.bpc, hs.pulled, by rw [hw]; exact map_plan_set hi hp⟩
  refine h.upd hi hw hs.cfg (fun x hx => hh ▸ hx) ?_ ?_ (fun u hu => Or.inl (hs.emitted ▸ hu))
    (fun p hp' => Or.inl (hs.pushes ▸ hp')) (fun u hu => Or.inl (hs.droppedU ▸ hu))
    (by rw [hs.discarded, hs.droppedU]; exact h.g4) (fun hb => hh ▸ h.g5 hb w hwm)
  · rw [hh, ht, hp]; exact h.w1 w hwm
  · intro u hu; rw [hh]; exact h.w2 w hwm u (hc ▸ hu)

theorem EL.refl_of {s s' : PackState} (h : PInv s) (hw : s'.workers = s.workers) (hs : Same s s') : EL s s' :=
  ⟨h.of_eq hw hs.pushes hs.emitted hs.droppedU hs.discarded hs.cfg, hs.cfg, hs.bpc, hs.pulled, by rw [hw]⟩

theorem EL.trans {s s' s'' : PackState} (h1 : EL s s') (h2 : EL s' s'') : EL s s'' :=
  ⟨h2.pinv, h2.cfg.trans h1.cfg, h2.bpc.trans h1.bpc, h2.pulled.trans h1.pulled, h2.plans.trans h1.plans⟩

theorem getElem?_set_self_of {α} {l : List α} {i : Nat} {a b : α} (h : l[i]? = some a) : (l.set i b)[i]? = some b := by
  have hil : i < l.length := by
    rcases Nat.lt_or_ge i l.length with h' | h'
    · exact h'
    · rw [List.getElem?_eq_none h'] at h; cases h
  simp [hil]

theorem worker_el (s : PackState) (i : Nat) (w : PWorker) (t : Nat) (a : Ans) (h : PInv s) (hi : s.workers[i]? = some w) :
    EL s (s.worker i w t a).1 := by
  have hwm := mem_of_getElem? hi
  unfold worker
  split
  · -- start
    split
    · exact el_same (w' := { w with pc := .timer }) h hi rfl rfl rfl rfl (by simp [setW]) (by constructor <;> simp [setW])
    · exact emitLoop_el t w.todo s i w a.cans a.sels [] h hi rfl
  · -- timer
    split
    · exact el_same (w' := { w with pc := .crashed }) h hi rfl rfl rfl rfl (by simp [setW]) (by constructor <;> simp [setW])
    · exact emitLoop_el t w.todo s i w a.cans a.sels [] h hi rfl
  · -- outAny
    split
    · rename_i toks idx u hft hcur
      have hu : (u, true) ∈ w.hist := h.w2 w hwm u hcur
      have h1 : EL s (({ s with outsel := s.outsel ++ [idx], processed := s.processed + 1, emitted := s.emitted ++ [u] } : PackState).setW i { w with cur := none }) := by
        refine ⟨?_, rfl, rfl, rfl, by simp only [setW]; exact map_plan_set hi rfl⟩
        refine h.upd (w' := { w with cur := none }) hi rfl rfl (fun x hx => hx) (h.w1 w hwm) (fun v hv => by cases hv) ?_
          (fun p hp => Or.inl hp) (fun v hv => Or.inl hv) h.g4 (fun hb => h.g5 hb w hwm)
        intro v hv
        simp only [setW] at hv
        rcases List.mem_append.mp hv with hv | hv
        · exact Or.inl hv
        · simp at hv; subst hv; exact Or.inr hu
      exact h1.trans (emitLoop_el t w.todo _ i _ a.cans a.sels _ h1.pinv (getElem?_set_self_of hi) rfl)
    · exact el_same (w' := { w with pc := .crashed }) h hi rfl rfl rfl rfl (by simp [setW]) (by constructor <;> simp [setW])
  · -- outTok
    split
    · rename_i e tok u hcur
      split
      · exact EL.refl_of h rfl (by constructor <;> rfl)
      · have hu : (u, true) ∈ w.hist := h.w2 w hwm u hcur
        have h1 : EL s (({ s with processed := s.processed + 1, emitted := s.emitted ++ [u] } : PackState).setW i { w with cur := none }) := by
          refine ⟨?_, rfl, rfl, rfl, by simp only [setW]; exact map_plan_set hi rfl⟩
          refine h.upd (w' := { w with cur := none }) hi rfl rfl (fun x hx => hx) (h.w1 w hwm) (fun v hv => by cases hv) ?_
            (fun p hp => Or.inl hp) (fun v hv => Or.inl hv) h.g4 (fun hb => h.g5 hb w hwm)
          intro v hv
          simp only [setW] at hv
          rcases List.mem_append.mp hv with hv | hv
          · exact Or.inl hv
          · simp at hv; subst hv; exact Or.inr hu
        exact h1.trans (emitLoop_el t w.todo _ i _ a.cans a.sels _ h1.pinv (getElem?_set_self_of hi) rfl)
    · exact EL.refl_of h rfl (by constructor <;> rfl)
  · -- pushWait
    split
    · split
      · exact EL.refl_of h rfl (by constructor <;> rfl)
      · have h1 : EL s ({ s with processed := s.processed + 1 } : PackState) := EL.refl_of h rfl (by constructor <;> rfl)
        exact h1.trans (emitLoop_el t w.todo _ i w a.cans a.sels [] h1.pinv hi rfl)
    · exact EL.refl_of h rfl (by constructor <;> rfl)
  · -- released
    have hg : Same s s.grantQueued ∧ s.grantQueued.workers = s.workers := by
      unfold grantQueued; split <;> exact ⟨by constructor <;> rfl, rfl⟩
    have hgi : s.grantQueued.workers[i]? = some w := by rw [hg.2]; exact hi
    have h0 : EL s s.grantQueued := EL.refl_of h hg.2 hg.1
    simp only
    split
    · exact h0.trans (el_same (w' := { w with pc := .done, inList := false }) h0.pinv hgi rfl rfl rfl rfl (by simp [setW]) (by constructor <;> simp [setW]))
    · exact h0.trans (el_same (w' := { w with pc := .done, inList := false }) h0.pinv hgi rfl rfl rfl rfl (by simp [setW]) (by constructor <;> simp [setW]))
  · exact EL.refl_of h rfl (by constructor <;> rfl)
  · exact EL.refl_of h rfl (by constructor <;> rfl)

theorem PInv.of_sub {s s' : PackState} (h : PInv s) (hw : s'.workers = s.workers) (hc : s'.cfg = s.cfg)
    (hd : s'.droppedU = s.droppedU) (hn : s'.discarded = s.discarded)
    (hP : ∀ q ∈ s'.pushes, ∃ q0 ∈ s.pushes, q.unit = q0.unit)
    (hE : ∀ u ∈ s'.emitted, u ∈ s.emitted ∨ ∃ q0 ∈ s.pushes, q0.unit = u) : PInv s' := by
  constructor
  · rw [hw]; exact h.w1
  · rw [hw]; exact h.w2
  · intro u hu; rw [hw]
    rcases hE u hu with hu | ⟨q0, hq0, rfl⟩
    · exact h.g1 u hu
    · exact h.g2 q0 hq0
  · intro q hq; rw [hw]
    obtain ⟨q0, hq0, he⟩ := hP q hq
    rw [he]; exact h.g2 q0 hq0
  · rw [hw, hd]; exact h.g3
  · rw [hn, hd]; exact h.g4
  · rw [hw, hc]; exact h.g5

theorem pushStep_el (s : PackState) (p : PPush) (a : Ans) (h : PInv s) (hp : p ∈ s.pushes) : EL s (s.pushStep p a).1 := by
  unfold pushStep
  split
  · refine ⟨h.of_sub rfl rfl rfl rfl ?_ (fun u hu => Or.inl hu), rfl, rfl, rfl, rfl⟩
    intro q hq
    simp only [List.mem_map] at hq
    obtain ⟨q0, hq0, rfl⟩ := hq
    split
    · exact ⟨p, hp, rfl⟩
    · exact ⟨q0, hq0, rfl⟩
  · split
    · exact EL.refl_of h rfl (by constructor <;> rfl)
    · refine ⟨h.of_sub rfl rfl rfl rfl ?_ ?_, rfl, rfl, rfl, rfl⟩
      · intro q hq
        simp only [List.mem_map] at hq
        obtain ⟨q0, hq0, rfl⟩ := hq
        split
        · exact ⟨p, hp, rfl⟩
        · exact ⟨q0, hq0, rfl⟩
      · intro u hu
        simp only at hu
        rcases List.mem_append.mp hu with hu | hu
        · exact Or.inl hu
        · simp at hu; subst hu; exact Or.inr ⟨p, hp, rfl⟩

end PackState
end FsVerif
