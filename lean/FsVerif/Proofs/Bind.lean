/-
List lemmas for explicit-binding stores: the reserved items are a prefix (FIFO) or a suffix
(LIFO) of `ready_items`; how that survives granting, taking, releasing and arrivals.
-/
import FsVerif.Proofs.Basic
namespace FsVerif

variable {α : Type} [DecidableEq α]

omit [DecidableEq α] in
theorem take_succ_perm {l r : List α} {k : Nat} (h : r.Perm (l.take k)) (hk : k < l.length) :
    (r ++ [l[k]]).Perm (l.take (k + 1)) := by
  rw [List.take_succ_eq_append_getElem hk]
  exact List.Perm.append_right _ h

theorem erase_take_of_mem_take {l : List α} {k : Nat} {e : α} (hnd : l.Nodup) (he : e ∈ l.take k) :
    (l.erase e).take (k - 1) = (l.take k).erase e := by
  induction l generalizing k with
  | nil => simp at he
  | cons x xs ih =>
    cases k with
    | zero => simp at he
    | succ k =>
      simp only [List.take_succ_cons] at he ⊢
      have hx := (List.nodup_cons.mp hnd)
      by_cases hxe : x = e
      · subst hxe; simp
      · have he' : e ∈ xs.take k := by
          rcases List.mem_cons.mp he with h | h
          · exact absurd h.symm hxe
          · exact h
        have hkpos : 0 < k := by cases k with
          | zero => simp at he'
          | succ _ => omega
        rw [List.erase_cons_tail (by simpa using hxe), List.erase_cons_tail (by simpa using hxe)]
        have := ih hx.2 he'
        obtain ⟨k', rfl⟩ : ∃ k', k = k' + 1 := ⟨k - 1, by omega⟩
        simp only [Nat.add_sub_cancel] at this ⊢
        rw [List.take_succ_cons, this]

theorem erase_drop_of_mem_take {l : List α} {k : Nat} {e : α} (hnd : l.Nodup) (he : e ∈ l.take k) :
    (l.erase e).drop (k - 1) = l.drop k := by
  induction l generalizing k with
  | nil => simp at he
  | cons x xs ih =>
    cases k with
    | zero => simp at he
    | succ k =>
      simp only [List.take_succ_cons] at he
      have hx := (List.nodup_cons.mp hnd)
      by_cases hxe : x = e
      · subst hxe; simp
      · have he' : e ∈ xs.take k := by
          rcases List.mem_cons.mp he with h | h
          · exact absurd h.symm hxe
          · exact h
        rw [List.erase_cons_tail (by simpa using hxe)]
        have := ih hx.2 he'
        obtain ⟨k', rfl⟩ : ∃ k', k = k' + 1 := ⟨k - 1, by cases k with
          | zero => simp at he'
          | succ _ => omega⟩
        simp only [Nat.add_sub_cancel, List.drop_succ_cons] at this ⊢
        exact this

/-- Python `l.remove(x)` on entries compared through a key that is unique in the list. -/
theorem findIdx_eraseIdx_eq_erase {β : Type} [DecidableEq β] {l : List α} (key : α → β) {e : α}
    (hnd : (l.map key).Nodup) (he : e ∈ l) :
    (match l.findIdx? (fun x => key x == key e) with | some i => l.eraseIdx i | none => l) = l.erase e := by
  induction l with
  | nil => simp at he
  | cons x xs ih =>
    simp only [List.map_cons, List.nodup_cons] at hnd
    by_cases hxe : x = e
    · subst hxe; simp [List.findIdx?_cons]
    · have he' : e ∈ xs := by
        rcases List.mem_cons.mp he with h | h
        · exact absurd h.symm hxe
        · exact h
      have hk : key x ≠ key e := by
        intro hk; exact hnd.1 (by rw [hk]; exact List.mem_map.mpr ⟨e, he', rfl⟩)
      have := ih hnd.2 he'
      rw [List.erase_cons_tail (by simpa using hxe)]
      simp only [List.findIdx?_cons, beq_iff_eq, hk, ite_false]
      cases hf : xs.findIdx? (fun x => key x == key e) with
      | none => simp [hf] at this ⊢; rw [← this]
      | some i => simp [hf] at this ⊢; rw [← this]


/-! suffix versions (LIFO: the reserved items are the top `k` entries) -/

theorem erase_drop_of_mem_drop {l : List α} {n : Nat} {e : α} (hnd : l.Nodup) (he : e ∈ l.drop n) :
    (l.erase e).drop n = (l.drop n).erase e := by
  have hsplit := List.take_append_drop n l
  have hnot : e ∉ l.take n := by
    rw [← hsplit] at hnd
    exact fun hm => (List.nodup_append.mp hnd).2.2 e hm e he rfl
  conv => lhs; rw [← hsplit]
  rw [List.erase_append_right _ hnot]
  have hlen : (l.take n).length = n := by
    have : n ≤ l.length := by
      by_cases h : n ≤ l.length
      · exact h
      · rw [List.drop_eq_nil_of_le (by omega)] at he; simp at he
    simp; omega
  rw [List.drop_append_of_le_length (by omega), List.drop_eq_nil_of_le (by omega)]
  simp

omit [DecidableEq α] in
theorem drop_succ_pyInsert (l : List α) (n : Nat) (a : α) (h : n ≤ l.length) :
    (pyInsert l n a).drop (n + 1) = l.drop n := by
  unfold pyInsert
  have : (l.take n).length = n := by simp; omega
  rw [List.drop_append, this, List.drop_eq_nil_of_le (by omega)]
  simp

omit [DecidableEq α] in
theorem take_pyInsert' (l : List α) (n : Nat) (a : α) (h : n ≤ l.length) :
    (pyInsert l n a).take n = l.take n := by
  unfold pyInsert
  rw [List.take_append_of_le_length (by simp; omega)]
  simp [List.take_take]

end FsVerif
