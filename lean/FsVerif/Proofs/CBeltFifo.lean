/-
Continuous conveyor store: the FIFO discipline of the exit, cancellation included.  `free s` is the list of items waiting at
the exit that no granted retrieval holds, in `ready_items` order.  It behaves as a queue: an arrival joins at the back, a
grant takes the front, a cancelled granted retrieval puts its item back at the FRONT (ahead of every never-reserved
item), a `get` does not touch it.
-/
import FsVerif.Proofs.CBeltBind
namespace FsVerif
namespace CBelt

def free (s : CBelt) : List CItem := s.ready.drop s.resEv.length

theorem free_congr {s s' : CBelt} (e1 : s'.ready = s.ready) (e2 : s'.resEv = s.resEv) : free s' = free s := by
  unfold free; rw [e1, e2]

/-- `_trigger_reserve_get` serves at most one request, with the front of the free list -/
theorem trigGet_queue {s : CBelt} (h : Bd0 s) :
    ∃ g, free s = g ++ free s.trigGet ∧ s.trigGet.resItems = s.resItems ++ g ∧ g.length ≤ 1 := by
  unfold CBelt.trigGet
  split
  · exact ⟨[], rfl, by simp, by simp⟩
  · split
    · rename_i hlt
      have hk : s.resEv.length < s.ready.length := by rw [h.ev.length_eq]; exact hlt
      split
      · rename_i e he
        have he' : s.ready[s.resEv.length] = e := by
          rw [List.getElem?_eq_getElem hk] at he
          exact Option.some.inj he
        refine ⟨[e], ?_, rfl, by simp⟩
        show s.ready.drop s.resEv.length = [e] ++ s.ready.drop (s.resEv ++ [_]).length
        rw [List.length_append, List.length_singleton, ← he', List.singleton_append]
        exact List.drop_eq_getElem_cons hk
      · rename_i hn
        exfalso
        rw [List.getElem?_eq_none_iff] at hn
        omega
    · exact ⟨[], rfl, by simp, by simp⟩

theorem trigPut_queue (s : CBelt) : free s.trigPut = free s ∧ s.trigPut.resItems = s.resItems := by
  obtain ⟨_, b, c, d, _⟩ := trigPut_bind s
  exact ⟨free_congr d b, c⟩

/-- a `get` (served or rejected) leaves the free list alone -/
theorem get_queue {s : CBelt} (h : Bd s) (p tid : Nat) : free (s.get p tid).1 = free s := by
  unfold CBelt.get
  split
  · rfl
  · split
    · rfl
    · rename_i t ht
      have htm : t ∈ s.getRes := List.mem_of_find?_eq_some ht
      have htr : t ∈ s.resEv := h.ev.mem_iff.mpr htm
      have hidx : s.resEv.idxOf t < s.resEv.length := List.idxOf_lt_length_of_mem htr
      split
      · rfl
      · split
        · rename_i hn
          exfalso
          rw [List.getElem?_eq_none_iff] at hn
          have := h.len; omega
        · rename_i e he
          have hem : e ∈ s.resItems := List.mem_of_getElem? he
          have hx : idk e ∈ (s.ready.take s.resEv.length).map idk := mem_take_of_perm idk h.items hem
          simp only
          split
          · have key : free (CBelt.trigPut (CBelt.updLevel { s with getRes := s.getRes.erase t, resEv := s.resEv.eraseIdx (s.resEv.idxOf t), resItems := s.resItems.eraseIdx (s.resEv.idxOf t), ready := removeItem s.ready e.item, gotLog := s.gotLog ++ [e.item] })) = free s := by
              rw [(trigPut_queue _).1]
              show (removeItem s.ready e.item).drop (s.resEv.eraseIdx (s.resEv.idxOf t)).length = s.ready.drop s.resEv.length
              have hl1 := PosStore.length_eraseIdx_lt hidx
              have hk : (s.resEv.eraseIdx (s.resEv.idxOf t)).length = s.resEv.length - 1 := by omega
              rw [hk, removeItem_eq]
              exact drop_removeKey idk s.ready (idk e) s.resEv.length hx
            split
            · exact key
            · exact key
          · rename_i hany
            exfalso
            have hxr : idk e ∈ s.ready.map idk := by
              rcases List.mem_map.mp hx with ⟨a, ha, hk⟩
              exact List.mem_map.mpr ⟨a, List.mem_of_mem_take ha, hk⟩
            exact hany (any_of_mem hxr)

/-- an arrival joins the free list at the back (then the trigger may serve one waiting request from the front) -/
theorem arrive_queue {s : CBelt} (h : Bd s) (p : MProc) :
    ∃ new g, free s ++ new = g ++ free (s.arrive p) ∧ (s.arrive p).resItems = s.resItems ++ g ∧ new.length ≤ 1 ∧ g.length ≤ 1 := by
  unfold CBelt.arrive
  split
  · exact ⟨[], [], by simp [free, CBelt.endProc, CBelt.giveUp], by simp [CBelt.endProc, CBelt.giveUp], by simp, by simp⟩
  · rename_i e _
    simp only
    split
    · have h0 : ∀ s2 : CBelt, (s2.getRes = s.getRes ∧ s2.resEv = s.resEv ∧ s2.resItems = s.resItems ∧ s2.ready = s.ready ++ [{ e with readyEntry := s.now }] ∧ s2.getQ = s.getQ) →
          ∃ g, free s ++ [{ e with readyEntry := s.now }] = g ++ free s2.trigGet ∧ s2.trigGet.resItems = s.resItems ++ g ∧ g.length ≤ 1 := by
        intro s2 ⟨e1, e2, e3, e4, e5⟩
        have hb : Bd0 s2 := by
          refine ⟨by rw [e1, e2]; exact h.ev, by rw [e2, e3]; exact h.len, ?_, ?_⟩
          · rw [e2, e4]; have := h.le; simp only [List.length_append, List.length_cons, List.length_nil]; omega
          · rw [e2, e3, e4, List.take_append_of_le_length h.le]; exact h.items
        obtain ⟨g, h1, h2, h3⟩ := trigGet_queue hb
        refine ⟨g, ?_, by rw [h2, e3], h3⟩
        rw [← h1]
        show s.ready.drop s.resEv.length ++ _ = s2.ready.drop s2.resEv.length
        rw [e4, e2, List.drop_append_of_le_length h.le]
      have fin : ∀ s3 : CBelt, (∃ g, free s ++ [{ e with readyEntry := s.now }] = g ++ free s3 ∧ s3.resItems = s.resItems ++ g ∧ g.length ≤ 1) →
          ∃ new g, free s ++ new = g ++ free ((CBelt.trigPut s3).endProc p) ∧ ((CBelt.trigPut s3).endProc p).resItems = s.resItems ++ g ∧ new.length ≤ 1 ∧ g.length ≤ 1 := by
        intro s3 ⟨g, h1, h2, h3⟩
        refine ⟨[{ e with readyEntry := s.now }], g, ?_, ?_, by simp, h3⟩
        · have : free ((CBelt.trigPut s3).endProc p) = free (CBelt.trigPut s3) := rfl
          rw [this, (trigPut_queue _).1]; exact h1
        · have : ((CBelt.trigPut s3).endProc p).resItems = (CBelt.trigPut s3).resItems := rfl
          rw [this, (trigPut_queue _).2]; exact h2
      split
      · exact fin _ (h0 _ ⟨rfl, rfl, rfl, rfl, rfl⟩)
      · exact fin _ (h0 _ ⟨rfl, rfl, rfl, rfl, rfl⟩)
    · exact ⟨[], [], by simp [free, CBelt.endProc, CBelt.giveUp], by simp [CBelt.endProc, CBelt.giveUp], by simp, by simp⟩

/-- cancelling a GRANTED retrieval puts its item back at the front of the free list: ahead of every never-reserved item;
    cancelling a waiting request (or a rejected call) leaves the free list alone; the trigger that follows may serve one
    request from the front -/
theorem cancelGet_queue {s : CBelt} (h : Bd s) (tid : Nat) :
    ∃ rel g base, rel ++ free s = g ++ free (s.cancelGet tid).1 ∧ (s.cancelGet tid).1.resItems = base ++ g ∧ g.length ≤ 1 ∧
      ((rel = [] ∧ base = s.resItems) ∨
       (∃ t e, findTok s.getRes tid = some t ∧ s.resItems[s.resEv.idxOf t]? = some e ∧ rel = [e] ∧
               base = s.resItems.eraseIdx (s.resEv.idxOf t))) := by
  unfold CBelt.cancelGet
  split
  · rename_i t ht
    have h0 : Bd0 ({ s with getQ := s.getQ.erase t } : CBelt) := h.to0.congr rfl rfl rfl rfl
    obtain ⟨g, h1, h2, h3⟩ := trigGet_queue h0
    exact ⟨[], g, s.resItems, h1, h2, h3, Or.inl ⟨rfl, rfl⟩⟩
  · split
    · rename_i t ht
      have htm : t ∈ s.getRes := findTok_mem ht
      have htr : t ∈ s.resEv := h.ev.mem_iff.mpr htm
      have hidx : s.resEv.idxOf t < s.resEv.length := List.idxOf_lt_length_of_mem htr
      split
      · exfalso; omega
      · split
        · rename_i hn
          exfalso
          rw [List.getElem?_eq_none_iff] at hn
          have := h.len; omega
        · rename_i e he
          have hem : e ∈ s.resItems := List.mem_of_getElem? he
          have hx : idk e ∈ (s.ready.take s.resEv.length).map idk := mem_take_of_perm idk h.items hem
          have hxr : idk e ∈ s.ready.map idk := by
            rcases List.mem_map.mp hx with ⟨a, ha, hk⟩
            exact List.mem_map.mpr ⟨a, List.mem_of_mem_take ha, hk⟩
          simp only
          split
          · obtain ⟨h1, _⟩ := h.release (s' := { s with getRes := s.getRes.erase t, resEv := s.resEv.eraseIdx (s.resEv.idxOf t), resItems := s.resItems.eraseIdx (s.resEv.idxOf t), ready := pyInsert (removeItem s.ready e.item) (s.resEv.eraseIdx (s.resEv.idxOf t)).length e }) t e hidx he htm rfl rfl rfl rfl rfl
            obtain ⟨g, q1, q2, q3⟩ := trigGet_queue h1
            refine ⟨[e], g, s.resItems.eraseIdx (s.resEv.idxOf t), ?_, q2, q3, Or.inr ⟨t, e, ht, he, rfl, rfl⟩⟩
            rw [← q1]
            show [e] ++ s.ready.drop s.resEv.length = (pyInsert (removeItem s.ready e.item) (s.resEv.eraseIdx (s.resEv.idxOf t)).length e).drop (s.resEv.eraseIdx (s.resEv.idxOf t)).length
            have hl1 := PosStore.length_eraseIdx_lt hidx
            have hk : (s.resEv.eraseIdx (s.resEv.idxOf t)).length = s.resEv.length - 1 := by omega
            have hrl := removeKey_length idk s.ready (idk e) hxr
            have hle := h.le
            rw [hk, removeItem_eq, drop_pyInsert _ _ _ (by show s.resEv.length - 1 ≤ (removeKey idk s.ready (idk e)).length; omega)]
            show [e] ++ _ = e :: (removeKey idk s.ready (idk e)).drop (s.resEv.length - 1)
            rw [drop_removeKey idk s.ready (idk e) s.resEv.length hx]; rfl
          · rename_i hany
            exfalso
            exact hany (any_of_mem hxr)
    · exact ⟨[], [], s.resItems, by simp, by simp, by simp, Or.inl ⟨rfl, rfl⟩⟩

end CBelt
end FsVerif
