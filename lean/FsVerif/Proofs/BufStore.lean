/-
Frame lemmas and case analyses for the BufferStore model.
-/
import FsVerif.Model.BufStore
import FsVerif.Proofs.Bind
namespace FsVerif
namespace BufStore

macro "bframe" : tactic => `(tactic| (repeat' split) <;> rfl)

section frames
variable (s : BufStore)

@[simp] theorem trigPut_cfg : s.trigPut.cfg = s.cfg := by unfold trigPut; bframe
@[simp] theorem trigPut_now : s.trigPut.now = s.now := by unfold trigPut; bframe
@[simp] theorem trigPut_nextTid : s.trigPut.nextTid = s.nextTid := by unfold trigPut; bframe
@[simp] theorem trigPut_transit : s.trigPut.transit = s.transit := by unfold trigPut; bframe
@[simp] theorem trigPut_ready : s.trigPut.ready = s.ready := by unfold trigPut; bframe
@[simp] theorem trigPut_getQ : s.trigPut.getQ = s.getQ := by unfold trigPut; bframe
@[simp] theorem trigPut_getRes : s.trigPut.getRes = s.getRes := by unfold trigPut; bframe
@[simp] theorem trigPut_resEv : s.trigPut.resEv = s.resEv := by unfold trigPut; bframe
@[simp] theorem trigPut_resItems : s.trigPut.resItems = s.resItems := by unfold trigPut; bframe
@[simp] theorem trigPut_timers : s.trigPut.timers = s.timers := by unfold trigPut; bframe
@[simp] theorem trigPut_crashed : s.trigPut.crashed = s.crashed := by unfold trigPut; bframe
@[simp] theorem trigPut_wsum : s.trigPut.wsum = s.wsum := by unfold trigPut; bframe
@[simp] theorem trigPut_lastLevel : s.trigPut.lastLevel = s.lastLevel := by unfold trigPut; bframe
@[simp] theorem trigPut_lastChange : s.trigPut.lastChange = s.lastChange := by unfold trigPut; bframe
@[simp] theorem trigPut_putLog : s.trigPut.putLog = s.putLog := by unfold trigPut; bframe
@[simp] theorem trigPut_gotLog : s.trigPut.gotLog = s.gotLog := by unfold trigPut; bframe
@[simp] theorem trigPut_area : s.trigPut.area = s.area := by unfold trigPut; bframe
@[simp] theorem trigPut_availLog : s.trigPut.availLog = s.availLog := by unfold trigPut; bframe
@[simp] theorem trigGet_cfg : s.trigGet.cfg = s.cfg := by unfold trigGet; bframe
@[simp] theorem trigGet_now : s.trigGet.now = s.now := by unfold trigGet; bframe
@[simp] theorem trigGet_nextTid : s.trigGet.nextTid = s.nextTid := by unfold trigGet; bframe
@[simp] theorem trigGet_transit : s.trigGet.transit = s.transit := by unfold trigGet; bframe
@[simp] theorem trigGet_ready : s.trigGet.ready = s.ready := by unfold trigGet; bframe
@[simp] theorem trigGet_putQ : s.trigGet.putQ = s.putQ := by unfold trigGet; bframe
@[simp] theorem trigGet_putRes : s.trigGet.putRes = s.putRes := by unfold trigGet; bframe
@[simp] theorem trigGet_timers : s.trigGet.timers = s.timers := by unfold trigGet; bframe
@[simp] theorem trigGet_wsum : s.trigGet.wsum = s.wsum := by unfold trigGet; bframe
@[simp] theorem trigGet_lastLevel : s.trigGet.lastLevel = s.lastLevel := by unfold trigGet; bframe
@[simp] theorem trigGet_lastChange : s.trigGet.lastChange = s.lastChange := by unfold trigGet; bframe
@[simp] theorem trigGet_putLog : s.trigGet.putLog = s.putLog := by unfold trigGet; bframe
@[simp] theorem trigGet_gotLog : s.trigGet.gotLog = s.gotLog := by unfold trigGet; bframe
@[simp] theorem trigGet_area : s.trigGet.area = s.area := by unfold trigGet; bframe
@[simp] theorem trigGet_availLog : s.trigGet.availLog = s.availLog := by unfold trigGet; bframe
@[simp] theorem updLevel_cfg : s.updLevel.cfg = s.cfg := by unfold updLevel; bframe
@[simp] theorem updLevel_now : s.updLevel.now = s.now := by unfold updLevel; bframe
@[simp] theorem updLevel_nextTid : s.updLevel.nextTid = s.nextTid := by unfold updLevel; bframe
@[simp] theorem updLevel_transit : s.updLevel.transit = s.transit := by unfold updLevel; bframe
@[simp] theorem updLevel_ready : s.updLevel.ready = s.ready := by unfold updLevel; bframe
@[simp] theorem updLevel_putQ : s.updLevel.putQ = s.putQ := by unfold updLevel; bframe
@[simp] theorem updLevel_putRes : s.updLevel.putRes = s.putRes := by unfold updLevel; bframe
@[simp] theorem updLevel_getQ : s.updLevel.getQ = s.getQ := by unfold updLevel; bframe
@[simp] theorem updLevel_getRes : s.updLevel.getRes = s.getRes := by unfold updLevel; bframe
@[simp] theorem updLevel_resEv : s.updLevel.resEv = s.resEv := by unfold updLevel; bframe
@[simp] theorem updLevel_resItems : s.updLevel.resItems = s.resItems := by unfold updLevel; bframe
@[simp] theorem updLevel_timers : s.updLevel.timers = s.timers := by unfold updLevel; bframe
@[simp] theorem updLevel_crashed : s.updLevel.crashed = s.crashed := by unfold updLevel; bframe
@[simp] theorem updLevel_putLog : s.updLevel.putLog = s.putLog := by unfold updLevel; bframe
@[simp] theorem updLevel_gotLog : s.updLevel.gotLog = s.gotLog := by unfold updLevel; bframe
@[simp] theorem updLevel_area : s.updLevel.area = s.area := by unfold updLevel; bframe
@[simp] theorem updLevel_availLog : s.updLevel.availLog = s.availLog := by unfold updLevel; bframe
@[simp] theorem updLevel_fired : s.updLevel.fired = s.fired := by unfold updLevel; bframe

@[simp] theorem updLevel_level : s.updLevel.level = s.level := by simp [level]
@[simp] theorem trigPut_level : s.trigPut.level = s.level := by simp [level]
@[simp] theorem trigGet_level : s.trigGet.level = s.level := by simp [level]
end frames

theorem trigPut_cases (s : BufStore) :
    (s.trigPut = s ∧ (s.putQ = [] ∨ s.admits = false)) ∨
    (∃ t q, s.putQ = t :: q ∧ s.admits = true ∧
      s.trigPut = { s with putQ := q, putRes := s.putRes ++ [t], fired := s.fired ++ [(t.id, s.now)] }) := by
  unfold trigPut
  split
  · left; simp_all
  · rename_i t q h
    split
    · right; exact ⟨t, q, h, by assumption, rfl⟩
    · left; simp_all

theorem trigGet_cases (s : BufStore) :
    (s.trigGet = s ∧ (s.getQ = [] ∨ s.serves = false)) ∨
    (∃ t q e, s.getQ = t :: q ∧ s.serves = true ∧ s.bindIdx.bind (fun i => s.ready[i]?) = some e ∧
      s.trigGet = { s with getQ := q, getRes := s.getRes ++ [t], resEv := s.resEv ++ [t],
                           resItems := s.resItems ++ [e], fired := s.fired ++ [(t.id, s.now)] }) ∨
    (∃ t q, s.getQ = t :: q ∧ s.serves = true ∧ s.bindIdx.bind (fun i => s.ready[i]?) = none ∧
      s.trigGet = { s with getQ := q, getRes := s.getRes ++ [t], fired := s.fired ++ [(t.id, s.now)], crashed := true }) := by
  unfold trigGet
  split
  · left; simp_all
  · rename_i t q h
    split
    · rename_i hs
      split
      · rename_i e he
        right; left; exact ⟨t, q, e, h, hs, he, rfl⟩
      · rename_i he
        right; right; exact ⟨t, q, h, hs, he, rfl⟩
    · left; simp_all

theorem admits_iff (s : BufStore) :
    s.admits = true ↔ ∀ c, s.cfg.cap = some c → s.putRes.length + s.level < c := by
  unfold admits
  split <;> simp_all

theorem serves_iff (s : BufStore) : s.serves = true ↔ s.getRes.length < s.ready.length := by
  unfold serves; simp

end BufStore
end FsVerif
