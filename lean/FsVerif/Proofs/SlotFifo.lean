/-
Slotted conveyor store: the FIFO discipline of the exit, cancellation included.  `free s` is the list of items waiting at
the exit that no granted retrieval holds, in `ready_items` order.  It behaves as a queue: an arrival joins at the back, a
grant takes the front, a cancelled granted retrieval puts its item back at the FRONT (ahead of every never-reserved
item), a `get` does not touch it.
-/
import FsVerif.Proofs.SlotBind
namespace FsVerif
namespace SlotBelt

def free (s : SlotBelt) : List SEntry := s.ready.drop s.resEv.length

theorem free_congr {s s' : SlotBelt} (e1 : s'.ready = s.ready) (e2 : s'.resEv = s.resEv) : free s' = free s := by
  unfold free; rw [e1, e2]

/-- `_trigger_reserve_get` serves at most one request, with the front of the free list -/
theorem trigGet_queue {s : SlotBelt} (h : Bd0 s) :
    ∃ g, free s = g ++ free s.trigGet ∧ s.trigGet.resItems = s.resItems ++ g ∧ g.length ≤ 1 := by
  unfold SlotBelt.trigGet
  split
  · exact ⟨[], rfl, by simp, by simp⟩
  · split
    · rename_i hlt
      have hk : s.resEv.length < s.ready.length := by rw [h.ev.length_eq]; exact hlt
      split
      · rename_i e he
        have he' : s.ready[s.resEv.length] = e := by
          rw [List.getElem?_eq_getElem hk] at he
          exact Option.some.inj he
        refine ⟨[e], ?_, rfl, by simp⟩
        show s.ready.drop s.resEv.length = [e] ++ s.ready.drop (s.resEv ++ [_]).length
        rw [List.length_append, List.length_singleton, ← he', List.singleton_append]
        exact List.drop_eq_getElem_cons hk
      · rename_i hn
        exfalso
        rw [List.getElem?_eq_none_iff] at hn
        omega
    · exact ⟨[], rfl, by simp, by simp⟩

theorem trigPut_queue (s : SlotBelt) : free s.trigPut = free s ∧ s.trigPut.resItems = s.resItems := by
  obtain ⟨_, b, c, d, _⟩ := trigPut_bind s
  exact ⟨free_congr d b, c⟩

/-- a `get` (served or rejected) leaves the free list alone -/
theorem get_queue {s : SlotBelt} (h : Bd s) (p tid : Nat) : free (s.get p tid).1 = free s := by
  unfold SlotBelt.get
  split
  · rfl
  · split
    · rfl
    · rename_i t ht
      have htm : t ∈ s.getRes := List.mem_of_find?_eq_some ht
      have htr : t ∈ s.resEv := h.ev.mem_iff.mpr htm
      have hidx : s.resEv.idxOf t < s.resEv.length := List.idxOf_lt_length_of_mem htr
      split
      · rfl
      · split
        · rename_i hn
          exfalso
          rw [List.getElem?_eq_none_iff] at hn
          have := h.len; omega
        · rename_i e he
          have hem : e ∈ s.resItems := List.mem_of_getElem? he
          have hx : ik e ∈ (s.ready.take s.resEv.length).map ik := mem_take_of_perm ik h.items hem
          simp only
          split
          · rw [(trigPut_queue _).1]
            show (removeItem s.ready e.item).drop (s.resEv.eraseIdx (s.resEv.idxOf t)).length = s.ready.drop s.resEv.length
            have hl1 := PosStore.length_eraseIdx_lt hidx
            have hk : (s.resEv.eraseIdx (s.resEv.idxOf t)).length = s.resEv.length - 1 := by omega
            rw [hk, removeItem_eq]
            exact drop_removeKey ik s.ready (ik e) s.resEv.length hx
          · rename_i hany
            exfalso
            have hxr : ik e ∈ s.ready.map ik := by
              rcases List.mem_map.mp hx with ⟨a, ha, hk⟩
              exact List.mem_map.mpr ⟨a, List.mem_of_mem_take ha, hk⟩
            exact hany (any_of_mem hxr)

/-- an arrival joins the free list at the back (then the trigger may serve one waiting request from the front) -/
theorem arrive_queue {s : SlotBelt} (h : Bd s) (q : Nat) :
    ∃ new g, free s ++ new = g ++ free (s.arrive q) ∧ (s.arrive q).resItems = s.resItems ++ g ∧ new.length ≤ 1 ∧ g.length ≤ 1 := by
  unfold SlotBelt.arrive
  split
  · exact ⟨[], [], by simp [free], by simp, by simp, by simp⟩
  · rename_i e _
    simp only
    split
    · have h0 : Bd0 ({ s with items := s.items.erase e, ready := s.ready ++ [e], readyAt := s.readyAt ++ [(q, s.now)], newReady := s.newReady ++ [e.item.id] } : SlotBelt) := by
        refine ⟨h.ev, h.len, ?_, ?_⟩
        · show s.resEv.length ≤ (s.ready ++ [e]).length
          have := h.le; simp only [List.length_append, List.length_cons, List.length_nil]; omega
        · show List.Perm _ (((s.ready ++ [e]).take s.resEv.length).map ik)
          rw [List.take_append_of_le_length h.le]; exact h.items
      obtain ⟨g, h1, h2, h3⟩ := trigGet_queue h0
      refine ⟨[e], g, ?_, ?_, by simp, h3⟩
      · rw [(trigPut_queue _).1, ← h1]
        show s.ready.drop s.resEv.length ++ [e] = (s.ready ++ [e]).drop s.resEv.length
        rw [List.drop_append_of_le_length h.le]
      · rw [(trigPut_queue _).2, h2]
    · exact ⟨[], [], by simp [free], by simp, by simp, by simp⟩

/-- cancelling a GRANTED retrieval puts its item back at the front of the free list: ahead of every never-reserved item;
    cancelling a waiting request (or a rejected call) leaves the free list alone; the trigger that follows may serve one
    request from the front -/
theorem cancelGet_queue {s : SlotBelt} (h : Bd s) (tid : Nat) :
    ∃ rel g base, rel ++ free s = g ++ free (s.cancelGet tid).1 ∧ (s.cancelGet tid).1.resItems = base ++ g ∧ g.length ≤ 1 ∧
      ((rel = [] ∧ base = s.resItems) ∨
       (∃ t e, findTok s.getRes tid = some t ∧ s.resItems[s.resEv.idxOf t]? = some e ∧ rel = [e] ∧
               base = s.resItems.eraseIdx (s.resEv.idxOf t))) := by
  unfold SlotBelt.cancelGet
  split
  · rename_i t ht
    have h0 : Bd0 ({ s with getQ := s.getQ.erase t } : SlotBelt) := h.to0.congr rfl rfl rfl rfl
    obtain ⟨g, h1, h2, h3⟩ := trigGet_queue h0
    exact ⟨[], g, s.resItems, h1, h2, h3, Or.inl ⟨rfl, rfl⟩⟩
  · split
    · rename_i t ht
      have htm : t ∈ s.getRes := findTok_mem ht
      have htr : t ∈ s.resEv := h.ev.mem_iff.mpr htm
      have hidx : s.resEv.idxOf t < s.resEv.length := List.idxOf_lt_length_of_mem htr
      split
      · exfalso; omega
      · split
        · rename_i hn
          exfalso
          rw [List.getElem?_eq_none_iff] at hn
          have := h.len; omega
        · rename_i e he
          have hem : e ∈ s.resItems := List.mem_of_getElem? he
          have hx : ik e ∈ (s.ready.take s.resEv.length).map ik := mem_take_of_perm ik h.items hem
          have hxr : ik e ∈ s.ready.map ik := by
            rcases List.mem_map.mp hx with ⟨a, ha, hk⟩
            exact List.mem_map.mpr ⟨a, List.mem_of_mem_take ha, hk⟩
          simp only
          split
          · obtain ⟨h1, _⟩ := h.release (s' := { s with getRes := s.getRes.erase t, resEv := s.resEv.eraseIdx (s.resEv.idxOf t), resItems := s.resItems.eraseIdx (s.resEv.idxOf t), ready := pyInsert (removeItem s.ready e.item) (s.resEv.eraseIdx (s.resEv.idxOf t)).length e }) t e hidx he htm rfl rfl rfl rfl rfl
            obtain ⟨g, q1, q2, q3⟩ := trigGet_queue h1
            refine ⟨[e], g, s.resItems.eraseIdx (s.resEv.idxOf t), ?_, q2, q3, Or.inr ⟨t, e, ht, he, rfl, rfl⟩⟩
            rw [← q1]
            show [e] ++ s.ready.drop s.resEv.length = (pyInsert (removeItem s.ready e.item) (s.resEv.eraseIdx (s.resEv.idxOf t)).length e).drop (s.resEv.eraseIdx (s.resEv.idxOf t)).length
            have hl1 := PosStore.length_eraseIdx_lt hidx
            have hk : (s.resEv.eraseIdx (s.resEv.idxOf t)).length = s.resEv.length - 1 := by omega
            have hrl := removeKey_length ik s.ready (ik e) hxr
            have hle := h.le
            rw [hk, removeItem_eq, drop_pyInsert _ _ _ (by show s.resEv.length - 1 ≤ (removeKey ik s.ready (ik e)).length; omega)]
            show [e] ++ _ = e :: (removeKey ik s.ready (ik e)).drop (s.resEv.length - 1)
            rw [drop_removeKey ik s.ready (ik e) s.resEv.length hx]; rfl
          · rename_i hany
            exfalso
            exact hany (any_of_mem hxr)
    · exact ⟨[], [], s.resItems, by simp, by simp, by simp, Or.inl ⟨rfl, rfl⟩⟩

end SlotBelt
end FsVerif
