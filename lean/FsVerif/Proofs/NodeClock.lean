/-
State-time accounting of Source and Sink (C17): under EVERY activation sequence the per-state totals partition the time between
the node's start and its last recorded state change - nothing is charged twice, nothing is lost, and the last change never lies
in the future.  (`update_state` charges `now - last_state_change_time` to the state that is being left.)
-/
import FsVerif.Proofs.SourceSink
import FsVerif.Proofs.MachineStat
namespace FsVerif

/-- the totals of a state clock add up to (last change − start); `start` is the instant of its first update -/
def ClockOK {n : Nat} (c : StateClock n) (start : Option Nat) (now : Nat) : Prop :=
  c.cur < c.tot.length ∧
  match c.last with
  | none => c.tot.sum = 0
  | some l => l ≤ now ∧ ∃ t0, start = some t0 ∧ t0 ≤ l ∧ c.tot.sum = l - t0

theorem ClockOK.update {n : Nat} {c : StateClock n} {start : Option Nat} {now t : Nat} (h : ClockOK c start now) (new : Nat)
    (hnew : new < c.tot.length) (hs : ∀ l, c.last = some l → l ≤ t) (hst : c.last = none → start = some t) (ht : t ≤ now) :
    ClockOK (c.update new t) start now := by
  unfold StateClock.update
  obtain ⟨hc, hl⟩ := h
  cases hlast : c.last with
  | none =>
    rw [hlast] at hl
    simp only
    refine ⟨hnew, ht, t, hst hlast, Nat.le_refl _, ?_⟩
    simp [hl]
  | some l =>
    rw [hlast] at hl
    obtain ⟨h1, t0, h2, h3, h4⟩ := hl
    have hlt := hs l hlast
    simp only
    refine ⟨by simpa using hnew, ht, t0, h2, Nat.le_trans h3 hlt, ?_⟩
    rw [MacState.sum_addAt _ _ _ hc, h4]; omega

theorem ClockOK.later {n : Nat} {c : StateClock n} {start : Option Nat} {now now' : Nat} (h : ClockOK c start now) (hle : now ≤ now') :
    ClockOK c start now' := by
  obtain ⟨hc, hl⟩ := h
  refine ⟨hc, ?_⟩
  cases hlast : c.last with
  | none => rw [hlast] at hl; exact hl
  | some l => rw [hlast] at hl; exact ⟨Nat.le_trans hl.1 hle, hl.2⟩

@[simp] theorem update_tot_length {n : Nat} (c : StateClock n) (new t : Nat) : (c.update new t).tot.length = c.tot.length := by
  unfold StateClock.update; split <;> simp

theorem update_last {n : Nat} (c : StateClock n) (new t : Nat) : (c.update new t).last = some t := by
  unfold StateClock.update; split <;> rfl

namespace SinkState

/-- the sink's single state: its total is the time from construction (0) to the last state change -/
def SK (s : SinkState) : Prop := ClockOK s.clock (some 0) s.now ∧ s.clock.tot.length = 1 ∧ s.clock.last ≠ none

theorem init_sk (n : Nat) : SK (init n) := by
  refine ⟨⟨by simp [init], ?_⟩, by simp [init], by simp [init]⟩
  simp [init]

theorem arm_sk {s : SinkState} {t : Nat} (h : SK s) (ht : t = s.now) : SK (s.arm t).1 := by
  obtain ⟨hc, hl, hn⟩ := h
  unfold arm
  refine ⟨?_, by simpa using hl, by simp [update_last]⟩
  refine ClockOK.update hc 0 (by omega) ?_ (fun h0 => absurd h0 hn) (by omega)
  intro l hl'
  have := hc.2
  rw [hl'] at this
  omega

theorem SK.frame {s s' : SinkState} (h : SK s) (e1 : s'.clock = s.clock) (e2 : s.now ≤ s'.now) : SK s' := by
  obtain ⟨hc, hl, hn⟩ := h
  exact ⟨by rw [e1]; exact hc.later e2, by rw [e1]; exact hl, by rw [e1]; exact hn⟩

theorem step_sk {s : SinkState} (proc t : Nat) (a : Ans) (h : SK s) : SK (s.step proc t a).1 := by
  unfold step
  split
  · exact h.frame rfl (Nat.le_refl _)
  · rename_i hlt
    have hle : s.now ≤ t := by omega
    have h' : SK { s with now := t } := h.frame rfl hle
    simp only
    split
    · exact h'.frame rfl (Nat.le_refl _)
    · split
      · exact arm_sk h' rfl
      · split
        · exact arm_sk (h'.frame rfl (Nat.le_refl _)) rfl
        · exact h'.frame rfl (Nat.le_refl _)
        · exact h'.frame rfl (Nat.le_refl _)

theorem run_sk (acts : List Act) : ∀ {s : SinkState}, SK s → SK (runActs s acts) := by
  induction acts with
  | nil => intro s h; exact h
  | cons x xs ih => intro s h; exact ih (step_sk x.proc x.t x.ans h)

end SinkState

namespace SrcState

/-- a clock on which at least one state change has been recorded -/
structure CL (c : StateClock 3) (start : Option Nat) (now : Nat) : Prop where
  ok : ClockOK c start now
  len : c.tot.length = 3
  some : c.last ≠ none

theorem CL.upd {c : StateClock 3} {st : Option Nat} {now : Nat} (h : CL c st now) (k : Nat) (hk : k < 3) : CL (c.update k now) st now := by
  obtain ⟨hc, hl, hs⟩ := h
  refine ⟨?_, by simpa using hl, by simp [update_last]⟩
  refine ClockOK.update hc k (by omega) ?_ (fun h0 => absurd h0 hs) (Nat.le_refl _)
  intro l hl'
  have := hc.2
  rw [hl'] at this
  exact this.1

theorem CL.updCur {c : StateClock 3} {st : Option Nat} {now : Nat} (h : CL c st now) : CL (c.update c.cur now) st now :=
  h.upd _ (by have := h.ok.1; rw [h.len] at this; exact this)

@[simp] theorem update_cur {n : Nat} (c : StateClock n) (new t : Nat) : (c.update new t).cur = new := by
  unfold StateClock.update; split <;> rfl

/-- whatever the behaviour process does in one activation, the clock stays a partition of the time since the start -/
theorem behaviour_cl (s : SrcState) (t : Nat) (a : Ans) (st : Option Nat) (h : CL s.clock st t) : CL (s.behaviour t a).1.clock st t := by
  have h1 : ∀ k, k < 3 → CL ((s.clock.update k t).update k t) st t := fun k hk => by
    have := (h.upd k hk).updCur; simpa using this
  have h2 : ∀ k, k < 3 → CL ((s.clock.update k t).update (s.clock.update k t).cur t) st t := fun k hk => (h.upd k hk).updCur
  unfold behaviour loopTop crash spawnPush
  repeat' split
  all_goals first
    | exact h
    | exact h.updCur
    | exact h.upd _ (by decide)
    | exact h2 _ (by decide)
    | exact (h.upd _ (by decide)).upd _ (by decide)

theorem behaviour_frame (s : SrcState) (t : Nat) (a : Ans) :
    (s.behaviour t a).1.tStart = s.tStart ∧ (s.behaviour t a).1.now = s.now := by
  unfold behaviour loopTop crash spawnPush
  repeat' split
  all_goals exact ⟨rfl, rfl⟩

theorem pushStep_clock (s : SrcState) (p : PushProc) (a : Ans) :
    (s.pushStep p a).1.clock = s.clock ∧ (s.pushStep p a).1.tStart = s.tStart ∧ (s.pushStep p a).1.now = s.now := by
  unfold pushStep
  repeat' split
  all_goals exact ⟨rfl, rfl, rfl⟩

/-- once set, `flagged` (an activation the model does not accept) stays set -/
theorem behaviour_flag (s : SrcState) (t : Nat) (a : Ans) :
    (s.behaviour t a).1.flagged = true ∨ (s.behaviour t a).1.flagged = s.flagged := by
  unfold behaviour loopTop crash spawnPush
  repeat' split
  all_goals first | exact Or.inl rfl | exact Or.inr rfl

theorem pushStep_flag (s : SrcState) (p : PushProc) (a : Ans) :
    (s.pushStep p a).1.flagged = true ∨ (s.pushStep p a).1.flagged = s.flagged := by
  unfold pushStep
  repeat' split
  all_goals first | exact Or.inl rfl | exact Or.inr rfl

theorem step_flagged (s : SrcState) (proc t : Nat) (a : Ans) (h : (s.step proc t a).1.flagged = false) : s.flagged = false := by
  unfold step at h
  split at h
  · simp at h
  · simp only at h
    split at h
    · rcases behaviour_flag { s with now := t, tStart := _ } t a with h1 | h1
      · rw [h1] at h; cases h
      · rw [h1] at h; exact h
    · split at h
      · rcases pushStep_flag { s with now := t, tStart := _ } _ a with h1 | h1
        · rw [h1] at h; cases h
        · rw [h1] at h; exact h
      · simp at h

/-- the partition, for runs the model accepts: the three state totals add up to (last change − first activation) -/
structure SC (s : SrcState) : Prop where
  ok : ClockOK s.clock s.tStart s.now
  len : s.clock.tot.length = 3
  early : s.clock.last = none → (s.pc = .start ∨ s.pc = .dead) ∧ s.subs = [] ∧ (s.tStart = none ∨ s.pc = .dead)

theorem init_sc (cfg : SrcCfg) : SC (init cfg) := by
  refine ⟨⟨by simp [init], by simp [init]⟩, by simp [init], ?_⟩
  intro _; simp [init]

theorem CL.sc {s : SrcState} (h : CL s.clock s.tStart s.now) : SC s := ⟨h.ok, h.len, fun h0 => absurd h0 h.some⟩

theorem step_sc {s : SrcState} (proc t : Nat) (a : Ans) (hf : (s.step proc t a).1.flagged = false) (h : SC s) : SC (s.step proc t a).1 := by
  revert hf
  unfold step
  split
  · intro hf; simp at hf
  · rename_i hlt
    have hle : s.now ≤ t := by omega
    simp only
    cases hlast : s.clock.last with
    | none =>
      obtain ⟨hpc, hsubs, hst⟩ := h.early hlast
      have hsum : s.clock.tot.sum = 0 := by have := h.ok.2; rw [hlast] at this; exact this
      split
      · -- the behaviour process: either its very first activation, or it is dead
        rcases hpc with hpc | hpc
        · rcases hst with hst | hst
          · rw [hst]
            simp only
            intro _
            have hcl : CL (s.clock.update 0 t) (some t) t := by
              refine ⟨?_, by simpa using h.len, by simp [update_last]⟩
              refine ClockOK.update (start := some t) (now := t) ⟨h.ok.1, by rw [hlast]; exact hsum⟩ 0 (by rw [h.len]; omega) ?_ (fun _ => rfl) (Nat.le_refl _)
              intro l hl; rw [hlast] at hl; cases hl
            unfold behaviour
            simp only [hpc]
            split
            · split
              · exact ⟨⟨h.ok.1, by simp only [crash]; rw [hlast]; exact hsum⟩, h.len, fun _ => ⟨Or.inr rfl, hsubs, Or.inr rfl⟩⟩
              · exact CL.sc (s := { s with now := t, tStart := some t, clock := s.clock.update 0 t, pc := .setupWait }) hcl
            · exact CL.sc (s := { s with now := t, tStart := some t, clock := s.clock.update 0 t, pc := .setupWait }) hcl
          · rw [hpc] at hst; cases hst
        · intro hf
          exfalso
          unfold behaviour at hf
          simp [hpc] at hf
      · rw [hsubs]
        simp only [List.find?_nil]
        intro hf; simp at hf
    | some l =>
      have hts : ∃ t0, s.tStart = some t0 := by
        have := h.ok.2; rw [hlast] at this; obtain ⟨_, t0, h1, _⟩ := this; exact ⟨t0, h1⟩
      obtain ⟨t0, hts⟩ := hts
      have hcl : CL s.clock (some t0) t := by
        refine ⟨?_, h.len, by rw [hlast]; simp⟩
        have := h.ok.later hle
        rw [hts] at this
        exact this
      rw [hts]
      simp only
      intro _
      split
      · have hb := behaviour_cl { s with now := t, tStart := some t0 } t a (some t0) hcl
        obtain ⟨e1, e2⟩ := behaviour_frame { s with now := t, tStart := some t0 } t a
        exact CL.sc (by rw [e1, e2]; exact hb)
      · split
        · obtain ⟨e1, e2, e3⟩ := pushStep_clock { s with now := t, tStart := some t0 } _ a
          exact CL.sc (by rw [e1, e2, e3]; exact hcl)
        · exact CL.sc (s := { s with now := t, tStart := some t0, flagged := true }) hcl

theorem run_sc (acts : List Act) : ∀ {s : SrcState}, (runActs s acts).flagged = false → SC s → SC (runActs s acts) := by
  induction acts with
  | nil => intro s _ h; exact h
  | cons x xs ih =>
    intro s hf h
    have hrun : runActs s (x :: xs) = runActs (s.step x.proc x.t x.ans).1 xs := rfl
    rw [hrun] at hf ⊢
    -- flags are sticky: an accepted run has only accepted prefixes
    have hpre : ∀ (ys : List Act) (u : SrcState), (runActs u ys).flagged = false → u.flagged = false := by
      intro ys
      induction ys with
      | nil => intro u hu; exact hu
      | cons y ys ih2 => intro u hu; exact step_flagged u y.proc y.t y.ans (ih2 _ hu)
    exact ih hf (step_sc x.proc x.t x.ans (hpre xs _ hf) h)

end SrcState
end FsVerif
