/-
Slotted conveyor store, put side of "no lost wake-up" (C04) and crash-freedom.

`Trk`: the move-process events pending in the kernel queue are, as a multiset of put ordinals, exactly the items travelling
on the belt — so `move_to_ready_items` always finds its item (`items.index` never raises) and, with the capacity invariant,
its overflow guard never fires.  `Young`: an item whose entry slot is not yet free (now < entry + delay) still has its
Initialize or phase-1 event pending.  `WP`: whenever a space request waits although the belt would admit it, a kernel event
of the CURRENT instant is still pending whose processing re-evaluates the queue — so at the end of every instant no request
waits while the belt admits.
-/
import FsVerif.Proofs.SlotBind
namespace FsVerif
namespace SlotBelt

def evSeq : SKind → Option Nat
  | .init q => some q
  | .ph1 q => some q
  | .ph2 q => some q
  | .retrig => none

def qseqs (q : List SEv) : List Nat := q.filterMap (fun ev => evSeq ev.kind)

theorem insSEv_perm (e : SEv) (q : List SEv) : (insSEv e q).Perm (e :: q) := by
  induction q with
  | nil => simp [insSEv]
  | cons x xs ih =>
    simp only [insSEv]
    split
    · exact List.Perm.refl _
    · exact (List.Perm.cons x ih).trans (List.Perm.swap e x xs)

theorem qseqs_ins (e : SEv) (q : List SEv) : (qseqs (insSEv e q)).Perm (qseqs (e :: q)) :=
  (insSEv_perm e q).filterMap _

theorem qseqs_cons_none {e : SEv} {q : List SEv} (h : evSeq e.kind = none) : qseqs (e :: q) = qseqs q := by
  simp [qseqs, List.filterMap_cons, h]

theorem qseqs_cons_some {e : SEv} {q : List SEv} {n : Nat} (h : evSeq e.kind = some n) : qseqs (e :: q) = n :: qseqs q := by
  simp [qseqs, List.filterMap_cons, h]

/-- the pending move events are exactly the travelling items -/
def Trk (s : SlotBelt) : Prop := (qseqs s.queue).Perm (s.items.map (·.seq))

/-- a travelling item whose entry slot is not yet free still has its Initialize / phase-1 event pending -/
def Young (s : SlotBelt) : Prop :=
  ∀ e ∈ s.items, s.now < e.entry + s.cfg.delay → ∃ ev ∈ s.queue, ev.kind = .init e.seq ∨ ev.kind = .ph1 e.seq

theorem Trk.congr {s s' : SlotBelt} (h : Trk s) (e1 : s'.queue = s.queue) (e2 : s'.items = s.items) : Trk s' := by
  unfold Trk; rw [e1, e2]; exact h

theorem Young.congr {s s' : SlotBelt} (h : Young s) (e1 : s'.queue = s.queue) (e2 : s'.items = s.items) (e3 : s'.now = s.now)
    (e4 : s'.cfg = s.cfg) : Young s' := by
  unfold Young; rw [e1, e2, e3, e4]; exact h

theorem trig_frame2 (s : SlotBelt) : (s.trigPut.queue = s.queue ∧ s.trigPut.items = s.items ∧ s.trigPut.now = s.now ∧ s.trigPut.cfg = s.cfg) ∧
    (s.trigGet.queue = s.queue ∧ s.trigGet.items = s.items ∧ s.trigGet.now = s.now ∧ s.trigGet.cfg = s.cfg) := by
  constructor
  · unfold SlotBelt.trigPut; split
    · exact ⟨rfl, rfl, rfl, rfl⟩
    · split <;> exact ⟨rfl, rfl, rfl, rfl⟩
  · unfold SlotBelt.trigGet; split
    · exact ⟨rfl, rfl, rfl, rfl⟩
    · split
      · split <;> exact ⟨rfl, rfl, rfl, rfl⟩
      · exact ⟨rfl, rfl, rfl, rfl⟩

theorem Trk.trigPut {s : SlotBelt} (h : Trk s) : Trk s.trigPut := h.congr (trig_frame2 s).1.1 (trig_frame2 s).1.2.1
theorem Trk.trigGet {s : SlotBelt} (h : Trk s) : Trk s.trigGet := h.congr (trig_frame2 s).2.1 (trig_frame2 s).2.2.1
theorem Young.trigPut {s : SlotBelt} (h : Young s) : Young s.trigPut :=
  h.congr (trig_frame2 s).1.1 (trig_frame2 s).1.2.1 (trig_frame2 s).1.2.2.1 (trig_frame2 s).1.2.2.2
theorem Young.trigGet {s : SlotBelt} (h : Young s) : Young s.trigGet :=
  h.congr (trig_frame2 s).2.1 (trig_frame2 s).2.2.1 (trig_frame2 s).2.2.2.1 (trig_frame2 s).2.2.2.2

/-- scheduling an event that belongs to no item -/
theorem Trk.sched_none {s : SlotBelt} (h : Trk s) (t : Nat) (u : Bool) (k : SKind) (hk : evSeq k = none) : Trk (s.sched t u k) := by
  unfold Trk SlotBelt.sched
  refine (qseqs_ins _ _).trans ?_
  rw [qseqs_cons_none (by exact hk)]; exact h

theorem Young.sched {s : SlotBelt} (h : Young s) (t : Nat) (u : Bool) (k : SKind) : Young (s.sched t u k) := by
  intro e he hy
  obtain ⟨ev, hev, hk⟩ := h e he hy
  exact ⟨ev, mem_insSEv.mpr (Or.inr hev), hk⟩

theorem erase_map_perm {l : List SEntry} {e : SEntry} (he : e ∈ l) : ((l.erase e).map (·.seq)).Perm ((l.map (·.seq)).erase e.seq) := by
  have h1 := (List.perm_cons_erase he).map (·.seq)
  have h2 := h1.erase e.seq
  simpa using h2.symm

/-- the item of ordinal `q` arrives; its event has already been taken off the queue -/
theorem arrive_trk {s : SlotBelt} (q : Nat) (h : (q :: qseqs s.queue).Perm (s.items.map (·.seq))) (hr : Room s) :
    Trk (s.arrive q) ∧ ∃ e ∈ s.items, e.seq = q ∧ ∃ s1 : SlotBelt, s.arrive q = s1.trigPut := by
  have hq : q ∈ s.items.map (·.seq) := h.mem_iff.mp List.mem_cons_self
  unfold SlotBelt.arrive
  split
  · rename_i hn
    exfalso
    rcases List.mem_map.mp hq with ⟨e, he, hs⟩
    have := List.find?_eq_none.mp hn e he
    simp [hs] at this
  · rename_i e he
    have hm : e ∈ s.items := mem_of_find? he
    have hs : e.seq = q := by have := List.find?_some he; simpa using this
    have hl := erase_length_mem hm
    have htr : (qseqs s.queue).Perm ((s.items.erase e).map (·.seq)) := by
      have h2 := h.erase q
      simp only [List.erase_cons_head] at h2
      exact h2.trans (by rw [← hs]; exact (erase_map_perm hm).symm)
    simp only
    split
    · refine ⟨?_, e, hm, hs, _, rfl⟩
      exact Trk.trigPut (Trk.trigGet (by unfold Trk; exact htr))
    · rename_i hfull
      exfalso
      have := hr.room
      simp only [level] at this
      omega


/-! ### the wake-up invariant of the put side -/

def Waker (s : SlotBelt) (ev : SEv) : Prop := ev.time ≤ s.now ∧ ∀ q, ev.kind = .init q → s.cfg.delay = 0

def WP (s : SlotBelt) : Prop := s.putQ ≠ [] → s.admits = true → ∃ ev ∈ s.queue, Waker s ev

/-- right after `_trigger_reserve_put` no servable request is waiting -/
theorem trigPut_settled (s : SlotBelt) : s.trigPut.putQ ≠ [] → s.trigPut.admits = false := by
  unfold SlotBelt.trigPut
  split
  · rename_i hq; intro hne; exact absurd hq hne
  · rename_i t q hq
    split
    · intro _
      unfold SlotBelt.admits
      simp
    · rename_i hna; intro _; simpa using hna

theorem WP.of_trigPut (s : SlotBelt) : WP s.trigPut := by
  intro hq ha
  rw [trigPut_settled s hq] at ha
  cases ha

/-- what the put-side wake-up condition reads -/
structure FW (s s' : SlotBelt) : Prop where
  queue : s'.queue = s.queue
  items : s'.items = s.items
  now : s'.now = s.now
  cfg : s'.cfg = s.cfg
  putQ : s'.putQ = s.putQ
  putRes : s'.putRes = s.putRes
  ready : s'.ready.length = s.ready.length

theorem FW.refl (s : SlotBelt) : FW s s := ⟨rfl, rfl, rfl, rfl, rfl, rfl, rfl⟩
theorem FW.trans {a b c : SlotBelt} (h1 : FW a b) (h2 : FW b c) : FW a c :=
  ⟨h2.queue.trans h1.queue, h2.items.trans h1.items, h2.now.trans h1.now, h2.cfg.trans h1.cfg, h2.putQ.trans h1.putQ,
   h2.putRes.trans h1.putRes, h2.ready.trans h1.ready⟩

theorem FW.admits {s s' : SlotBelt} (f : FW s s') : s'.admits = s.admits := by
  unfold SlotBelt.admits SlotBelt.level
  rw [f.putRes, f.items, f.ready, f.cfg, f.now]

theorem WP.fw {s s' : SlotBelt} (h : WP s) (f : FW s s') : WP s' := by
  intro hq ha
  rw [f.putQ] at hq; rw [f.admits] at ha
  obtain ⟨ev, hev, h1, h2⟩ := h hq ha
  exact ⟨ev, by rw [f.queue]; exact hev, by rw [f.now]; exact h1, by rw [f.cfg]; exact h2⟩

theorem Trk.fw {s s' : SlotBelt} (h : Trk s) (f : FW s s') : Trk s' := h.congr f.queue f.items
theorem Young.fw {s s' : SlotBelt} (h : Young s) (f : FW s s') : Young s' := h.congr f.queue f.items f.now f.cfg

theorem FW.trigGet (s : SlotBelt) : FW s s.trigGet := by
  unfold SlotBelt.trigGet; split
  · exact FW.refl s
  · split
    · split <;> exact ⟨rfl, rfl, rfl, rfl, rfl, rfl, rfl⟩
    · exact FW.refl s

/-- the three put-side facts -/
structure W (s : SlotBelt) : Prop where
  trk : Trk s
  young : Young s
  wp : WP s

theorem W.fw {s s' : SlotBelt} (h : W s) (f : FW s s') : W s' := ⟨h.trk.fw f, h.young.fw f, h.wp.fw f⟩

/-- an operation that ends with `_trigger_reserve_put` and leaves queue / items / clock alone -/
theorem W.by_trigPut {s x : SlotBelt} (h : W s) (e1 : x.queue = s.queue) (e2 : x.items = s.items) (e3 : x.now = s.now)
    (e4 : x.cfg = s.cfg) : W x.trigPut :=
  ⟨Trk.trigPut (h.trk.congr e1 e2), Young.trigPut (h.young.congr e1 e2 e3 e4), WP.of_trigPut x⟩

theorem pyInsert_length' {α} (l : List α) (i : Nat) (a : α) : (pyInsert l i a).length = l.length + 1 := by
  simp only [pyInsert, List.length_append, List.length_take, List.length_cons, List.length_drop]; omega

theorem W.reserveGetP {s : SlotBelt} (h : W s) (p : Nat) (pr : Int) : W (s.reserveGetP p pr).1 := by
  refine h.fw ?_
  unfold SlotBelt.reserveGetP
  exact (FW.mk rfl rfl rfl rfl rfl rfl rfl : FW s { s with nextTid := s.nextTid + 1, getQ := stableSort (s.getQ ++ [({ id := s.nextTid, proc := p, prio := pr } : Tok)]) }).trans (FW.trigGet _)

theorem W.reservePutP {s : SlotBelt} (h : W s) (p : Nat) (pr : Int) : W (s.reservePutP p pr).1 := by
  unfold SlotBelt.reservePutP
  exact h.by_trigPut rfl rfl rfl rfl

theorem W.cancelPut {s : SlotBelt} (h : W s) (tid : Nat) : W (s.cancelPut tid).1 := by
  unfold SlotBelt.cancelPut
  split
  · exact h.by_trigPut rfl rfl rfl rfl
  · split
    · exact h.by_trigPut rfl rfl rfl rfl
    · exact h

theorem W.cancelGet {s : SlotBelt} (h : W s) (tid : Nat) : W (s.cancelGet tid).1 := by
  refine h.fw ?_
  unfold SlotBelt.cancelGet
  split
  · rename_i t _
    exact (FW.mk rfl rfl rfl rfl rfl rfl rfl : FW s { s with getQ := s.getQ.erase t }).trans (FW.trigGet _)
  · split
    · split
      · exact ⟨rfl, rfl, rfl, rfl, rfl, rfl, rfl⟩
      · split
        · exact ⟨rfl, rfl, rfl, rfl, rfl, rfl, rfl⟩
        · rename_i e _
          simp only
          split
          · rename_i hany
            refine FW.trans (b := { s with getRes := _, resEv := _, resItems := _, ready := _ }) ?_ (FW.trigGet _)
            refine ⟨rfl, rfl, rfl, rfl, rfl, rfl, ?_⟩
            show (pyInsert (removeItem s.ready e.item) _ e).length = s.ready.length
            rw [pyInsert_length']
            exact removeItem_length_of_any s.ready e.item hany
          · exact ⟨rfl, rfl, rfl, rfl, rfl, rfl, rfl⟩
    · exact FW.refl s

theorem W.get {s : SlotBelt} (h : W s) (p tid : Nat) : W (s.get p tid).1 := by
  unfold SlotBelt.get
  split
  · exact h
  · split
    · exact h
    · split
      · exact h
      · split
        · exact h.fw ⟨rfl, rfl, rfl, rfl, rfl, rfl, rfl⟩
        · simp only
          split
          · exact h.by_trigPut rfl rfl rfl rfl
          · exact h.fw ⟨rfl, rfl, rfl, rfl, rfl, rfl, rfl⟩

theorem W.put {s : SlotBelt} (h : W s) (hi : Inv s) (p tid : Nat) (x : Item) : W (s.put p tid x).1 := by
  unfold SlotBelt.put
  split
  · exact h
  · split
    · exact h
    · rename_i t ht
      have hm : t ∈ s.putRes := mem_of_find? ht
      simp only
      split
      · -- accepted: the new item is the last one on the belt, its Initialize event is pending at the current instant
        refine ⟨Trk.trigGet ?_, Young.trigGet ?_, ?_⟩
        · unfold Trk
          show (qseqs (insSEv _ s.queue)).Perm ((s.items ++ [({ item := x, entry := s.now, seq := s.nput } : SEntry)]).map (fun e : SEntry => e.seq))
          refine (qseqs_ins _ _).trans ?_
          rw [qseqs_cons_some (n := s.nput) rfl, List.map_append]
          exact (List.Perm.cons _ h.trk).trans (List.perm_append_singleton _ _).symm
        · intro e he hy
          have he' : e ∈ s.items ++ [({ item := x, entry := s.now, seq := s.nput } : SEntry)] := he
          rcases List.mem_append.mp he' with h1 | h1
          · obtain ⟨ev, hev, hk⟩ := h.young e h1 hy
            exact ⟨ev, mem_insSEv.mpr (Or.inr hev), hk⟩
          · rw [List.mem_singleton] at h1; subst h1
            exact ⟨_, mem_insSEv.mpr (Or.inl rfl), Or.inl rfl⟩
        · refine WP.fw ?_ (FW.trigGet _)
          intro _ ha
          by_cases hd : s.cfg.delay = 0
          · exact ⟨_, mem_insSEv.mpr (Or.inl rfl), Nat.le_refl _, fun _ _ => hd⟩
          · exfalso
            unfold SlotBelt.admits at ha
            simp only [Bool.and_eq_true, decide_eq_true_eq] at ha
            have h3 := ha.2
            simp only [SlotBelt.sched, SlotBelt.updLevel, List.getLast?_append, List.getLast?_singleton] at h3
            simp at h3
            omega
      · rename_i hfull
        exfalso
        have hl : (s.putRes.erase t).length + 1 = s.putRes.length := by
          rw [List.length_erase_of_mem hm]; have := List.length_pos_of_mem hm; omega
        have := hi.room.room
        simp only [level] at this hfull
        omega


theorem Young.arrive {s : SlotBelt} (h : Young s) (q : Nat) : Young (s.arrive q) := by
  unfold SlotBelt.arrive
  split
  · exact h.congr rfl rfl rfl rfl
  · rename_i e _
    simp only
    have sub : ∀ x ∈ s.items.erase e, x ∈ s.items := fun x hx => List.mem_of_mem_erase hx
    split
    · refine Young.trigPut (Young.trigGet ?_)
      intro x hx hy; exact h x (sub x hx) hy
    · intro x hx hy; exact h x (sub x hx) hy

theorem W.adv {s : SlotBelt} (h : W s) (hi : Inv s) (dt : Nat) : W (s.adv dt) := by
  have key : (∀ ev ∈ s.queue, s.now + dt ≤ ev.time) → W { s with now := s.now + dt } := by
    intro hq
    refine ⟨h.trk.congr rfl rfl, ?_, ?_⟩
    · intro e he hy
      exact h.young e he (by show s.now < e.entry + s.cfg.delay; have : s.now + dt < e.entry + s.cfg.delay := hy; omega)
    · intro hne ha
      by_cases ha0 : s.admits = true
      · obtain ⟨ev, hev, h1, h2⟩ := h.wp hne ha0
        exact ⟨ev, hev, Nat.le_trans h1 (Nat.le_add_right _ _), h2⟩
      · -- only the clock test of the admission rule has changed
        unfold SlotBelt.admits at ha ha0
        simp only [Bool.and_eq_true, decide_eq_true_eq] at ha
        obtain ⟨⟨hA, hB⟩, hC⟩ := ha
        have hA' : s.putRes.isEmpty = true := hA
        have hB' : s.putRes.length + s.level < s.cfg.cap := hB
        cases hl : s.items.getLast? with
        | none =>
          exfalso; apply ha0
          simp [hA', hB', hl]
        | some e =>
          have hC' : e.entry + s.cfg.delay ≤ s.now + dt := by
            have : (match (({ s with now := s.now + dt } : SlotBelt)).items.getLast? with
                    | none => true
                    | some e => decide (e.entry + s.cfg.delay ≤ s.now + dt)) = true := hC
            have hl' : (({ s with now := s.now + dt } : SlotBelt)).items.getLast? = some e := hl
            rw [hl'] at this; simpa using this
          have hnot : ¬ e.entry + s.cfg.delay ≤ s.now := by
            intro hle; apply ha0; simp [hA', hB', hl, hle]
          have hem : e ∈ s.items := List.mem_of_getLast? hl
          obtain ⟨ev, hev, hk⟩ := h.young e hem (by omega)
          have hok := hi.ks.evOK ev hev
          have hee : e ∈ s.entered := hi.si.sub.subset hem
          rcases hk with hk | hk
          · exfalso
            obtain ⟨e', he', hs', ht'⟩ := hok.1 e.seq hk
            have : e' = e := hi.si.seq_inj he' hee hs'
            subst this
            have h1 := hq ev hev
            have h2 := hi.ks.entryLe e' hee
            omega
          · obtain ⟨e', he', hs', ht'⟩ := hok.2.1 e.seq hk
            have : e' = e := hi.si.seq_inj he' hee hs'
            subst this
            refine ⟨ev, hev, by show ev.time ≤ s.now + dt; omega, ?_⟩
            intro q hq'; rw [hk] at hq'; cases hq'
  unfold SlotBelt.adv
  split
  · rename_i e q hq
    split
    · exact h.fw ⟨rfl, rfl, rfl, rfl, rfl, rfl, rfl⟩
    · rename_i hnot
      apply key
      intro ev hev
      have hs := hi.ks.tsorted; rw [hq] at hs
      rw [hq] at hev
      rcases List.mem_cons.mp hev with rfl | hev
      · omega
      · have := (List.pairwise_cons.mp hs).1 ev hev; omega
  · rename_i hq
    apply key
    intro ev hev; rw [hq] at hev; cases hev

theorem W.ev {s : SlotBelt} (h : W s) (hi : Inv s) : W s.ev := by
  unfold SlotBelt.ev
  split
  · exact h
  · rename_i e0 q hq
    have hmem : e0 ∈ s.queue := by rw [hq]; exact List.mem_cons_self
    have hle : s.now ≤ e0.time := hi.ks.clock e0 hmem
    have hmax : max s.now e0.time = e0.time := Nat.max_eq_right hle
    have hok := hi.ks.evOK e0 hmem
    have htrk : (qseqs (e0 :: q)).Perm (s.items.map (·.seq)) := by have := h.trk; unfold Trk at this; rw [hq] at this; exact this
    -- the state after the event has been taken off the queue and the clock moved to it
    have hroom : Room ({ s with queue := q, now := max s.now e0.time } : SlotBelt) := hi.room.congr rfl rfl rfl rfl
    have young1 : ∀ (k : SKind), e0.kind = k → (∀ n, k ≠ .init n) → (∀ n, k = .ph1 n → ∀ e ∈ s.items, e.seq = n → e.entry + s.cfg.delay ≤ e0.time) →
        Young ({ s with queue := q, now := max s.now e0.time } : SlotBelt) := by
      intro k hk hni hp1 e he hy
      have hy' : e0.time < e.entry + s.cfg.delay := by have : max s.now e0.time < e.entry + s.cfg.delay := hy; rw [hmax] at this; exact this
      obtain ⟨ev, hev, hkk⟩ := h.young e he (by omega)
      rw [hq] at hev
      rcases List.mem_cons.mp hev with rfl | hev
      · exfalso
        rcases hkk with hkk | hkk
        · exact hni e.seq (by rw [← hk, hkk])
        · have := hp1 e.seq (by rw [← hk, hkk]) e he rfl; omega
      · exact ⟨ev, hev, hkk⟩
    have ph1time : ∀ n, e0.kind = .ph1 n → ∀ e ∈ s.items, e.seq = n → e.entry + s.cfg.delay ≤ e0.time := by
      intro n hk e he hs
      obtain ⟨e', he', hs', ht'⟩ := hok.2.1 n hk
      have : e' = e := hi.si.seq_inj he' (hi.si.sub.subset he) (by rw [hs', hs])
      subst this; omega
    cases hk : e0.kind with
    | retrig =>
      simp only [SlotBelt.handle]
      refine ⟨Trk.trigPut ?_, Young.trigPut ?_, WP.of_trigPut _⟩
      · unfold Trk; show (qseqs q).Perm _
        rw [← qseqs_cons_none (e := e0) (by rw [hk]; rfl)]; exact htrk
      · exact young1 .retrig hk (fun n => by simp) (fun n hn => by cases hn)
    | ph2 n =>
      simp only [SlotBelt.handle]
      have hp : (n :: qseqs q).Perm (s.items.map (·.seq)) := by
        rw [← qseqs_cons_some (e := e0) (by rw [hk]; rfl)]; exact htrk
      obtain ⟨ht, _, _, _, s1, hs1⟩ := arrive_trk (s := { s with queue := q, now := max s.now e0.time }) n hp hroom
      refine ⟨ht, Young.arrive (young1 (.ph2 n) hk (fun m => by simp) (fun m hm => by cases hm)) n, ?_⟩
      rw [hs1]; exact WP.of_trigPut s1
    | ph1 n =>
      simp only [SlotBelt.handle]
      have hp : (n :: qseqs q).Perm (s.items.map (·.seq)) := by
        rw [← qseqs_cons_some (e := e0) (by rw [hk]; rfl)]; exact htrk
      have hy1 := young1 (.ph1 n) hk (fun m => by simp) (fun m hm e he hs => ph1time m (by rw [hk, hm]) e he hs)
      split
      · -- phase 2 is scheduled; the re-trigger event is pending at the current instant
        refine ⟨?_, Young.sched (Young.sched hy1 _ _ _) _ _ _, ?_⟩
        · unfold Trk
          show (qseqs (insSEv _ (insSEv _ q))).Perm _
          refine (qseqs_ins _ _).trans ?_
          rw [qseqs_cons_some (n := n) rfl]
          refine (List.Perm.cons _ ((qseqs_ins _ _).trans ?_)).trans hp
          rw [qseqs_cons_none rfl]
        · intro _ _
          refine ⟨{ time := max s.now e0.time, urgent := false, seq := s.nextSeq, kind := .retrig }, ?_, Nat.le_refl _, ?_⟩
          · exact mem_insSEv.mpr (Or.inr (mem_insSEv.mpr (Or.inl rfl)))
          · intro m hm; cases hm
      · have hp' : (n :: qseqs (({ s with queue := q, now := max s.now e0.time } : SlotBelt).sched (max s.now e0.time) false .retrig).queue).Perm (s.items.map (·.seq)) := by
          refine (List.Perm.cons _ ((qseqs_ins _ _).trans ?_)).trans hp
          rw [qseqs_cons_none rfl]
        obtain ⟨ht, _, _, _, s1, hs1⟩ := arrive_trk (s := ({ s with queue := q, now := max s.now e0.time } : SlotBelt).sched (max s.now e0.time) false .retrig) n hp' (hroom.sched _ _ _)
        refine ⟨ht, Young.arrive (Young.sched hy1 _ _ _) n, ?_⟩
        rw [hs1]; exact WP.of_trigPut s1
    | init n =>
      simp only [SlotBelt.handle]
      have hp : (n :: qseqs q).Perm (s.items.map (·.seq)) := by
        rw [← qseqs_cons_some (e := e0) (by rw [hk]; rfl)]; exact htrk
      -- the item this Initialize belongs to
      have hn : n ∈ s.items.map (·.seq) := hp.mem_iff.mp List.mem_cons_self
      obtain ⟨en, hen, hsn⟩ := List.mem_map.mp hn
      have henE : en ∈ s.entered := hi.si.sub.subset hen
      have hent : en.entry = e0.time := by
        obtain ⟨e', he', hs', ht'⟩ := hok.1 n hk
        have : e' = en := hi.si.seq_inj he' henE (by rw [hs', hsn])
        subst this; omega
      split
      · rename_i hd
        refine ⟨?_, ?_, ?_⟩
        · unfold Trk
          show (qseqs (insSEv _ q)).Perm _
          refine (qseqs_ins _ _).trans ?_
          rw [qseqs_cons_some (n := n) rfl]; exact hp
        · intro e he hy
          have hy' : e0.time < e.entry + s.cfg.delay := by have : max s.now e0.time < e.entry + s.cfg.delay := hy; rw [hmax] at this; exact this
          obtain ⟨ev, hev, hkk⟩ := h.young e he (by omega)
          rw [hq] at hev
          rcases List.mem_cons.mp hev with rfl | hev
          · rcases hkk with hkk | hkk
            · have : n = e.seq := by rw [hk] at hkk; cases hkk; rfl
              exact ⟨_, mem_insSEv.mpr (Or.inl rfl), Or.inr (by rw [this])⟩
            · rw [hk] at hkk; cases hkk
          · exact ⟨ev, mem_insSEv.mpr (Or.inr hev), hkk⟩
        · -- the belt cannot admit: the youngest item entered in this very instant
          intro _ ha
          exfalso
          unfold SlotBelt.admits at ha
          simp only [Bool.and_eq_true, decide_eq_true_eq] at ha
          have hC := ha.2
          cases hl : s.items.getLast? with
          | none => rw [List.getLast?_eq_none_iff] at hl; rw [hl] at hen; cases hen
          | some el =>
            have hl' : (SlotBelt.sched ({ s with queue := q, now := max s.now e0.time } : SlotBelt) (max s.now e0.time + s.cfg.delay) false (.ph1 n)).items.getLast? = some el := hl
            rw [hl'] at hC
            have hC' : el.entry + s.cfg.delay ≤ e0.time := by
              have hC2 : decide (el.entry + s.cfg.delay ≤ max s.now e0.time) = true := hC
              have : el.entry + s.cfg.delay ≤ max s.now e0.time := of_decide_eq_true hC2
              rw [hmax] at this; exact this
            have hge : en.entry ≤ el.entry := by
              rcases pairwise_getLast hi.si.itemsSorted hl en hen with h1 | h1
              · rw [h1]; exact Nat.le_refl _
              · exact h1
            omega
      · rename_i hd
        have hd0 : s.cfg.delay = 0 := by
          have : ¬ (({ s with queue := q, now := max s.now e0.time } : SlotBelt)).cfg.delay > 0 := hd
          show s.cfg.delay = 0
          have : ¬ s.cfg.delay > 0 := this
          omega
        split
        · rename_i hc
          exfalso
          have : (s.cfg.cap - 1) * s.cfg.delay > 0 := hc
          rw [hd0] at this; simp at this
        · obtain ⟨ht, _, _, _, s1, hs1⟩ := arrive_trk (s := { s with queue := q, now := max s.now e0.time }) n hp hroom
          refine ⟨ht, Young.arrive ?_ n, ?_⟩
          · intro e he hy
            exfalso
            have : max s.now e0.time < e.entry + s.cfg.delay := hy
            rw [hmax, hd0] at this
            have := hi.ks.entryLe e (hi.si.sub.subset he)
            omega
          · rw [hs1]; exact WP.of_trigPut s1

theorem W.step {s : SlotBelt} (h : W s) (hi : Inv s) (op : Op) : W (s.step op).1 := by
  have h' : W { s with fired := [], newReady := [] } := h.fw ⟨rfl, rfl, rfl, rfl, rfl, rfl, rfl⟩
  have hi' : Inv { s with fired := [], newReady := [] } :=
    ⟨hi.ks.congr rfl rfl rfl rfl rfl, hi.room.congr rfl rfl rfl rfl, hi.si.congr ⟨rfl, rfl, rfl, rfl, rfl, rfl, rfl⟩⟩
  unfold SlotBelt.step
  cases op with
  | reservePut p => exact h'.reservePutP p 0
  | reserveGet p => exact h'.reserveGetP p 0
  | reservePutP p pr => exact h'.reservePutP p pr
  | reserveGetP p pr => exact h'.reserveGetP p pr
  | put p t x => exact h'.put hi' p t x
  | get p t => exact h'.get p t
  | cancelPut t => exact h'.cancelPut t
  | cancelGet t => exact h'.cancelGet t
  | adv dt => exact h'.adv hi' dt
  | ev => exact h'.ev hi'
  | final => exact h'.fw ⟨rfl, rfl, rfl, rfl, rfl, rfl, rfl⟩

theorem init_w (cfg : SlotCfg) : W (init cfg) := by
  refine ⟨?_, ?_, ?_⟩
  · unfold Trk qseqs init; simp
  · intro e he; simp [init] at he
  · intro hq; simp [init] at hq

theorem run_w (ops : List Op) : ∀ (s : SlotBelt), Inv s → W s → W (s.run ops) := by
  induction ops with
  | nil => intro s _ h; exact h
  | cons op ops ih => intro s hi h; exact ih _ (hi.step op) (h.step hi op)


/-! ### crash-freedom: the IndexError / ValueError / overflow branches of the slotted store are dead -/

theorem trigPut_crashed (s : SlotBelt) : s.trigPut.crashed = s.crashed := by
  unfold SlotBelt.trigPut; split
  · rfl
  · split <;> rfl

theorem trigGet_crashed {s : SlotBelt} (h : Bd0 s) : s.trigGet.crashed = s.crashed := by
  unfold SlotBelt.trigGet; split
  · rfl
  · split
    · rename_i hlt
      split
      · rfl
      · rename_i hn
        exfalso
        rw [List.getElem?_eq_none_iff] at hn
        have := h.ev.length_eq
        omega
    · rfl

theorem arrive_crashed {s : SlotBelt} (hb : Bd s) (q : Nat) (h : (q :: qseqs s.queue).Perm (s.items.map (·.seq))) (hr : Room s) :
    (s.arrive q).crashed = s.crashed := by
  have hq : q ∈ s.items.map (·.seq) := h.mem_iff.mp List.mem_cons_self
  unfold SlotBelt.arrive
  split
  · rename_i hn
    exfalso
    rcases List.mem_map.mp hq with ⟨e, he, hs⟩
    have := List.find?_eq_none.mp hn e he
    simp [hs] at this
  · rename_i e he
    have hm : e ∈ s.items := mem_of_find? he
    have hl := erase_length_mem hm
    simp only
    split
    · rw [trigPut_crashed, trigGet_crashed]
      refine ⟨hb.ev, hb.len, ?_, ?_⟩
      · show s.resEv.length ≤ (s.ready ++ [e]).length
        have := hb.le; simp only [List.length_append, List.length_cons, List.length_nil]; omega
      · show List.Perm _ (((s.ready ++ [e]).take s.resEv.length).map ik)
        rw [List.take_append_of_le_length hb.le]; exact hb.items
    · rename_i hfull
      exfalso
      have := hr.room
      simp only [level] at this
      omega

theorem step_crashed {s : SlotBelt} (hi : Inv s) (hw : W s) (hb : Bd s) (op : Op) : (s.step op).1.crashed = s.crashed := by
  have hb' : Bd { s with fired := [], newReady := [] } := hb.congr rfl rfl rfl rfl rfl
  unfold SlotBelt.step
  cases op with
  | reservePut p => exact trigPut_crashed _
  | reservePutP p pr => exact trigPut_crashed _
  | reserveGet p => exact trigGet_crashed (hb'.to0.congr rfl rfl rfl rfl)
  | reserveGetP p pr => exact trigGet_crashed (hb'.to0.congr rfl rfl rfl rfl)
  | put p t x =>
    simp only [SlotBelt.put]
    split
    · rfl
    · split
      · rfl
      · split
        · exact trigGet_crashed (hb'.to0.congr rfl rfl rfl rfl)
        · rfl
  | get p t =>
    simp only [SlotBelt.get]
    repeat' split
    all_goals first
      | rfl
      | exact trigPut_crashed _
  | cancelPut t =>
    simp only [SlotBelt.cancelPut]
    repeat' split
    all_goals first
      | rfl
      | exact trigPut_crashed _
  | cancelGet tid =>
    simp only [SlotBelt.cancelGet]
    split
    · exact trigGet_crashed (hb'.to0.congr rfl rfl rfl rfl)
    · split
      · rename_i t ht
        have htm : t ∈ s.getRes := findTok_mem ht
        have htr : t ∈ s.resEv := hb.ev.mem_iff.mpr htm
        have hidx : s.resEv.idxOf t < s.resEv.length := List.idxOf_lt_length_of_mem htr
        split
        · rfl
        · split
          · rfl
          · rename_i e he
            split
            · obtain ⟨h1, _⟩ := hb'.release (s' := { s with fired := [], newReady := [], getRes := s.getRes.erase t, resEv := s.resEv.eraseIdx (s.resEv.idxOf t), resItems := s.resItems.eraseIdx (s.resEv.idxOf t), ready := pyInsert (removeItem s.ready e.item) (s.resEv.eraseIdx (s.resEv.idxOf t)).length e }) t e hidx he htm rfl rfl rfl rfl rfl
              exact trigGet_crashed h1
            · rfl
      · rfl
  | adv dt =>
    simp only [SlotBelt.adv]
    repeat' split
    all_goals rfl
  | final => rfl
  | ev =>
    simp only [SlotBelt.ev]
    split
    · rfl
    · rename_i e0 q hq
      have htrk : (qseqs (e0 :: q)).Perm (s.items.map (·.seq)) := by have := hw.trk; unfold Trk at this; rw [hq] at this; exact this
      have hroom : Room ({ s with fired := [], newReady := [], queue := q, now := max s.now e0.time } : SlotBelt) := hi.room.congr rfl rfl rfl rfl
      have hbd : Bd ({ s with fired := [], newReady := [], queue := q, now := max s.now e0.time } : SlotBelt) := hb.congr rfl rfl rfl rfl rfl
      cases hk : e0.kind with
      | retrig => exact trigPut_crashed _
      | ph2 n =>
        simp only [SlotBelt.handle]
        refine arrive_crashed hbd n ?_ hroom
        rw [← qseqs_cons_some (e := e0) (by rw [hk]; rfl)]; exact htrk
      | ph1 n =>
        simp only [SlotBelt.handle]
        have hp : (n :: qseqs q).Perm (s.items.map (·.seq)) := by
          rw [← qseqs_cons_some (e := e0) (by rw [hk]; rfl)]; exact htrk
        split
        · rfl
        · refine (arrive_crashed (hbd.sched _ _ _) n ?_ (hroom.sched _ _ _)).trans rfl
          refine (List.Perm.cons _ ((qseqs_ins _ _).trans ?_)).trans hp
          rw [qseqs_cons_none rfl]
      | init n =>
        simp only [SlotBelt.handle]
        have hp : (n :: qseqs q).Perm (s.items.map (·.seq)) := by
          rw [← qseqs_cons_some (e := e0) (by rw [hk]; rfl)]; exact htrk
        split
        · rfl
        · split
          · rfl
          · exact arrive_crashed hbd n hp hroom

theorem run_alive (ops : List Op) : ∀ (s : SlotBelt), Inv s → W s → Bd s → s.crashed = false → (s.run ops).crashed = false := by
  induction ops with
  | nil => intro s _ _ _ h; exact h
  | cons op ops ih =>
    intro s hi hw hb h
    exact ih _ (hi.step op) (hw.step hi op) (hb.step op) (by rw [step_crashed hi hw hb op]; exact h)

end SlotBelt
end FsVerif
