/-
Continuous-conveyor model, travel-time invariant: kernel events and API calls; every reachable state.
-/
import FsVerif.Proofs.CBeltTime3
namespace FsVerif
namespace CBelt

/-- taking the head event off the queue; if it is a Timeout, its owner (if any) becomes the exempt process -/
theorem TIg.pop {s : CBelt} (h : TIg none s) {e0 : CEv} {rest : List CEv} (hq : s.queue = e0 :: rest) (x : Option Nat)
    (hx : ∀ p ∈ s.procs, ∀ ph st rm u, e0.kind = .tmo u → p.pc = .run ph st rm u → x = some p.q) :
    TIg x { s with queue := rest, now := max s.now e0.time } := by
  obtain ⟨a1, a2, a3, a4, a5, a6, a7, a8, a9, a10, a16, a11, a12, a13, a14, a15⟩ := h
  have hmem0 : e0 ∈ s.queue := by rw [hq]; exact List.mem_cons_self
  have hsub : ∀ ev ∈ rest, ev ∈ s.queue := fun ev hev => by rw [hq]; exact List.mem_cons_of_mem _ hev
  have hle : s.now ≤ e0.time := a3 e0 hmem0
  have hmax : max s.now e0.time = e0.time := Nat.max_eq_right hle
  have hs : QSorted (e0 :: rest) := by rw [← hq]; exact a2
  refine ⟨a1, (List.pairwise_cons.mp hs).2, ?_, ?_, ?_, ?_, a7, a8, a9, ?_, a16, ?_, a12, a13, ?_, a15⟩
  · intro ev hev; simp only [hmax]; exact (List.pairwise_cons.mp hs).1 ev hev
  · intro ev hev; exact a4 ev (hsub ev hev)
  · intro ev hev; exact a5 ev (hsub ev hev)
  · intro ev hev; exact a6 ev (hsub ev hev)
  · intro p hp hxp it hit hseq
    have hold := a10 p hp (by simp) it hit hseq
    unfold PcOK at hold ⊢
    split
    · trivial
    · rename_i ph st rm u hpc
      rw [hpc] at hold
      simp only at hold
      obtain ⟨h1, h2, h3, h4, h5, ev, hev, hk, ht⟩ := hold
      refine ⟨h1, h2, h3, h4, by simp only [hmax]; omega, ?_⟩
      rw [hq] at hev
      rcases List.mem_cons.mp hev with rfl | hev
      · exact absurd (hx p hp ph st rm u hk hpc) hxp
      · exact ⟨ev, hev, hk, ht⟩
    · rename_i ph rm ist g hpc
      rw [hpc] at hold
      simp only at hold
      obtain ⟨h1, h2, h3, h4, h5⟩ := hold
      exact ⟨h1, h2, h3, h4, by simp only [hmax]; omega⟩
  · intro ev hev; exact a11 ev (hsub ev hev)
  · intro e he; simp only [hmax]; exact Nat.le_trans (a14 e he) hle

theorem TIg.initM {s : CBelt} (h : TIg none s) (q : Nat) (hent : ∀ it ∈ s.items, it.seq = q → it.entry = s.now) :
    TIg none (s.initM q) := by
  unfold CBelt.initM
  split
  · exact h
  · rename_i p hp
    obtain ⟨hmem, hpq⟩ := find_some hp
    have hpq' : p.q = q := by simpa using hpq
    have h1 := (h.weaken q).setItemEx (fun it => { it with totalInt := 0, intStart := none }) (fun it => ⟨rfl, rfl⟩)
    refine TIg.startPhase (s := s.setItem q (fun it => { it with totalInt := 0, intStart := none })) h1 { p with total := 0 } 1 s.cfg.p1
      (fun y hy => by rw [← Option.some.inj hy]; exact hpq'.symm) ?_
    intro it' hit' hs
    obtain ⟨it, hit, rfl⟩ := List.mem_map.mp hit'
    have hs' : p.q = q := hpq'
    by_cases hq : it.seq = q
    · have : (it.seq == q) = true := by simpa using hq
      rw [if_pos this]
      refine ⟨rfl, ?_, rfl, Or.inl rfl⟩
      have := hent it hit hq
      show s.now + s.cfg.p1 = it.entry + 0 + target s.cfg 1
      simp only [target]; simp; omega
    · have hf : (it.seq == q) = false := by simpa using hq
      simp only [hf] at hs
      exact absurd (hs.trans hs') hq

theorem TIg.initD {s : CBelt} (h : TIg none s) (d delay : Nat) :
    TIg none (({ s with nextUid := s.nextUid + 1,
                        dprocs := s.dprocs.map (fun (x : DProc) => if x.d == d then { x with pc := .sleep s.nextUid } else x) } : CBelt).sched
      (s.now + delay) false (.tmo s.nextUid)) := by
  obtain ⟨a1, a2, a3, a4, a5, a6, a7, a8, a9, a10, a16, a11, a12, a13, a14, a15⟩ := h
  refine ⟨a1, insCEv_sorted a2, ?_, ?_, ?_, ?_, a7, a8, a9, ?_, ?_, ?_, a12, a13, a14, a15⟩
  · intro ev hev
    rcases mem_insCEv.mp hev with rfl | hev
    · exact Nat.le_add_right _ _
    · exact a3 ev hev
  · intro ev hev u hk
    rcases mem_insCEv.mp hev with rfl | hev
    · simp only [CKind.tmo.injEq] at hk; subst hk; exact Nat.lt_succ_self _
    · exact Nat.lt_succ_of_lt (a4 ev hev u hk)
  · intro ev hev q' hk
    rcases mem_insCEv.mp hev with rfl | hev
    · cases hk
    · exact a5 ev hev q' hk
  · intro ev hev q' hk it hit' hs
    rcases mem_insCEv.mp hev with rfl | hev
    · cases hk
    · exact a6 ev hev q' hk it hit' hs
  · intro p hp hx it hit hs
    exact (a10 p hp hx it hit hs).mono rfl (Nat.le_refl _) (fun ev hev _ => mem_insCEv.mpr (Or.inr hev))
  · intro p hp ph st rm u hpc; exact Nat.lt_succ_of_lt (a16 p hp ph st rm u hpc)
  · intro ev hev u hk p hp ph st rm hpc
    rcases mem_insCEv.mp hev with rfl | hev
    · simp only [CKind.tmo.injEq] at hk; subst hk
      exact absurd (a16 p hp ph st rm _ hpc) (Nat.lt_irrefl _)
    · exact a11 ev hev u hk p hp ph st rm hpc

/-- a Timeout is processed; `p` = the move process waiting on it (exempt after `pop`), with its accounting as it
    was before the event was taken off the queue -/
theorem TIg.onTimeout_proc {s : CBelt} (u : Nat) (p : MProc)
    (hf : s.procs.find? (waitsOn u) = some p)
    (h : TIg (some p.q) s) (ph st rm : Nat) (hpc : p.pc = .run ph st rm u) (hnow : s.now = st + rm)
    (hit : ∀ it ∈ s.items, it.seq = p.q → it.intStart = none ∧ st + rm = it.entry + it.totalInt + target s.cfg ph ∧
      p.total = it.totalInt ∧ (ph = 1 ∨ ph = 2)) :
    TIg none (s.onTimeout u) := by
  unfold CBelt.onTimeout
  rw [hf]
  simp only
  by_cases hph1 : ph = 1
  · subst hph1
    rw [hpc]
    simp only
    refine TIg.startPhase (h.fr (Fr.sched s false .p1e trivial)) p 1 0 (fun y hy => (Option.some.inj hy).symm) ?_
    intro it hit' hs
    obtain ⟨h1, h2, h3, _⟩ := hit it hit' hs
    exact ⟨h1, by show s.now + 0 = it.entry + it.totalInt + target s.cfg 1; omega, h3, Or.inl rfl⟩
  · have hgoal : TIg none (s.startPhase p 2 0) := by
      refine TIg.startPhase h p 2 0 (fun y hy => (Option.some.inj hy).symm) ?_
      intro it hit' hs
      obtain ⟨h1, h2, h3, h4⟩ := hit it hit' hs
      have hph2 : ph = 2 := by
        rcases h4 with h4 | h4
        · exact absurd h4 hph1
        · exact h4
      subst hph2
      exact ⟨h1, by omega, h3, Or.inr rfl⟩
    rw [hpc]
    split
    · rename_i heq
      simp only [MPc.run.injEq] at heq
      exact absurd heq.1 hph1
    · exact hgoal

theorem TIg.onTimeout_none {s : CBelt} (u : Nat)
    (hf : s.procs.find? (waitsOn u) = none)
    (h : TIg none s) : TIg none (s.onTimeout u) := by
  unfold CBelt.onTimeout
  rw [hf]
  simp only
  split
  · rename_i d _
    have h1 : TIg none { s with dprocs := s.dprocs.filter (fun x => x.d != d.d) } := h.frS ⟨rfl, rfl, rfl, rfl, rfl, rfl, rfl, rfl, rfl⟩
    have h2 := h1.fr (Fr.interruptItem _ d.itemId)
    exact h2.frS ⟨rfl, rfl, rfl, rfl, rfl, rfl, rfl, rfl, rfl⟩
  · exact h

theorem TIg.onInterrupt {s : CBelt} (h : TIg none s) (r : PRef) : TIg none (s.onInterrupt r) := by
  unfold CBelt.onInterrupt
  cases r with
  | delayed d =>
    simp only
    split
    · exact h
    · split
      · exact h
      · exact h.frS ⟨rfl, rfl, rfl, rfl, rfl, rfl, rfl, rfl, rfl⟩
  | move q =>
    simp only
    split
    · exact h
    · rename_i p hp
      obtain ⟨hmem, hpq⟩ := find_some hp
      have hpq' : p.q = q := by simpa using hpq
      split
      · exact h
      · rename_i ph st rm u hpc
        -- facts about every item of this process, from the invariant
        have hfacts : ∀ it ∈ s.items, it.seq = q → it.intStart = none ∧ st + rm = it.entry + it.totalInt + target s.cfg ph ∧
            p.total = it.totalInt ∧ (ph = 1 ∨ ph = 2) ∧ st ≤ s.now ∧ s.now ≤ st + rm := by
          intro it hit hs
          have := h.pcOK p hmem (by simp) it hit (by rw [hs, hpq'])
          unfold PcOK at this
          rw [hpc] at this
          simp only at this
          obtain ⟨h1, h2, h3, h4, h5, ev, hev, _, ht⟩ := this
          exact ⟨h1, h2, h3, h4, h5, by rw [← ht]; exact h.clock ev hev⟩
        have h1 := (h.weaken q).setItemEx (fun it => { it with intStart := some s.now }) (fun it => ⟨rfl, rfl⟩)
        have h2 := h1.waitPc ph (rm - (s.now - st)) s.now s.reGen (by
          intro it' hit' hs
          obtain ⟨it, hit, rfl⟩ := List.mem_map.mp hit'
          by_cases hq : it.seq = q
          · have hb : (it.seq == q) = true := by simpa using hq
            obtain ⟨f1, f2, f3, f4, f5, f6⟩ := hfacts it hit hq
            unfold updItem
            rw [if_pos hb]
            refine ⟨rfl, ?_, ?_, Nat.le_refl _, f4⟩
            · show s.now + (rm - (s.now - st)) = it.entry + it.totalInt + target s.cfg ph
              omega
            · intro p' hp' hq'
              have : p' = p := procs_unique h.procQ hp' hmem (by rw [hq', hpq'])
              rw [this]; exact f3
          · have hb : (it.seq == q) = false := by simpa using hq
            simp only [updItem, hb] at hs
            exact absurd hs hq)
        exact h2.frS ⟨rfl, rfl, rfl, rfl, rfl, rfl, rfl, rfl, rfl⟩
      · have h1 := h.endProc p (by intro y hy; cases hy)
        exact h1.frS ⟨rfl, rfl, rfl, rfl, rfl, rfl, rfl, rfl, rfl⟩

end CBelt
end FsVerif
