/-
BufferStore in FIFO mode (and the store inside a Fleet, which is always FIFO): the ready list is a FIFO queue, cancellation
included.  `free s` = the ready entries that no granted retrieval holds, in `ready_items` order: an entry that becomes
available joins at the back, a grant takes the front, a cancelled granted retrieval puts its entry back at the FRONT, a
`get` does not touch it.  Needs only the store invariant `Pre` (binding + distinctness).
-/
import FsVerif.Proofs.BeltBind
import FsVerif.Proofs.BufInv
import FsVerif.Proofs.Fleet
namespace FsVerif
namespace BufStore

def bk (e : BEntry) : Nat := e.item.id

theorem removeItem_eq (l : List BEntry) (x : Item) : removeItem l x = removeKey bk l x.id := rfl

def free (s : BufStore) : List BEntry := s.ready.drop s.resEv.length

theorem free_congr {s s' : BufStore} (e1 : s'.ready = s.ready) (e2 : s'.resEv = s.resEv) : free s' = free s := by
  unfold free; rw [e1, e2]

theorem key_mem_take {s : BufStore} (h : Pre s) (hm : s.cfg.mode = .fifo) {e : BEntry} (he : e ∈ s.resItems) :
    bk e ∈ (s.ready.take s.resEv.length).map bk := by
  have := h.bindItems
  unfold resPart at this
  rw [hm] at this
  exact List.mem_map.mpr ⟨e, this.mem_iff.mp he, rfl⟩

theorem trigGet_queue {s : BufStore} (hl : s.resEv.length = s.getRes.length) (hm : s.cfg.mode = .fifo) :
    ∃ g, free s = g ++ free s.trigGet ∧ s.trigGet.resItems = s.resItems ++ g ∧ g.length ≤ 1 := by
  rcases trigGet_cases s with ⟨he, _⟩ | ⟨t, q, e, _, hs, hb, he⟩ | ⟨t, q, _, hs, hb, _⟩
  · rw [he]; exact ⟨[], rfl, by simp, by simp⟩
  · have hk : s.resEv.length < s.ready.length := by
      have := (serves_iff s).mp hs; rw [hl]; exact this
    have hb' : s.ready[s.resEv.length]? = some e := by
      unfold bindIdx at hb; rw [hm] at hb; simpa using hb
    have he' : s.ready[s.resEv.length] = e := by
      rw [List.getElem?_eq_getElem hk] at hb'
      exact Option.some.inj hb'
    rw [he]
    refine ⟨[e], ?_, rfl, by simp⟩
    show s.ready.drop s.resEv.length = [e] ++ s.ready.drop (s.resEv ++ [t]).length
    rw [List.length_append, List.length_singleton, ← he', List.singleton_append]
    exact List.drop_eq_getElem_cons hk
  · exfalso
    have hk : s.resEv.length < s.ready.length := by
      have := (serves_iff s).mp hs; rw [hl]; exact this
    unfold bindIdx at hb; rw [hm] at hb
    simp at hb; omega

theorem trigPut_queue (s : BufStore) : free s.trigPut = free s ∧ s.trigPut.resItems = s.resItems :=
  ⟨free_congr (by simp) (by simp), by simp⟩

theorem hasItem_of_key {l : List BEntry} {x : Nat} (h : x ∈ l.map bk) (it : Item) (hx : it.id = x) : hasItem l it = true := by
  rcases List.mem_map.mp h with ⟨a, ha, hk⟩
  unfold hasItem
  exact List.any_eq_true.mpr ⟨a, ha, by simpa [bk, hx] using hk⟩

theorem get_queue {s : BufStore} (h : Pre s) (hm : s.cfg.mode = .fifo) (p tid : Nat) : free (s.get p tid).1 = free s := by
  unfold BufStore.get
  split
  · rfl
  · split
    · rfl
    · rename_i t ht
      have htm : t ∈ s.getRes := List.mem_of_find?_eq_some ht
      have htr : t ∈ s.resEv := h.bindEv.mem_iff.mpr htm
      have hidx : s.resEv.idxOf t < s.resEv.length := List.idxOf_lt_length_of_mem htr
      split
      · rfl
      · split
        · rename_i hn
          exfalso
          rw [List.getElem?_eq_none_iff] at hn
          have := h.bindLen; omega
        · rename_i e he
          have hem : e ∈ s.resItems := List.mem_of_getElem? he
          have hx := key_mem_take h hm hem
          split
          · rw [(trigPut_queue _).1]
            show (removeItem s.ready e.item).drop (s.resEv.eraseIdx (s.resEv.idxOf t)).length = s.ready.drop s.resEv.length
            have hl1 := PosStore.length_eraseIdx_lt hidx
            have hk : (s.resEv.eraseIdx (s.resEv.idxOf t)).length = s.resEv.length - 1 := by omega
            rw [hk, removeItem_eq]
            exact drop_removeKey bk s.ready (bk e) s.resEv.length hx
          · rename_i hany
            exfalso
            have hxr : bk e ∈ s.ready.map bk := by
              rcases List.mem_map.mp hx with ⟨a, ha, hk⟩
              exact List.mem_map.mpr ⟨a, List.mem_of_mem_take ha, hk⟩
            exact hany (hasItem_of_key hxr e.item rfl)

/-- an entry that becomes available joins the free list at the back (then the trigger may serve one request from the front) -/
theorem arrive_trig_queue {s : BufStore} (h : Pre s) (hm : s.cfg.mode = .fifo) (e : BEntry) :
    ∃ g, free s ++ [e] = g ++ free ((s.arrive e).trigGet).trigPut ∧ ((s.arrive e).trigGet).trigPut.resItems = s.resItems ++ g ∧ g.length ≤ 1 := by
  have hle := h.bindLe
  have hl : (s.arrive e).resEv.length = (s.arrive e).getRes.length := h.bindEv.length_eq
  have hm' : (s.arrive e).cfg.mode = .fifo := hm
  obtain ⟨g, h1, h2, h3⟩ := trigGet_queue hl hm'
  refine ⟨g, ?_, ?_, h3⟩
  · rw [(trigPut_queue _).1, ← h1]
    show s.ready.drop s.resEv.length ++ [e] = (s.arrive e).ready.drop s.resEv.length
    have : (s.arrive e).ready = s.ready ++ [e] := by simp [arrive, hm]
    rw [this, List.drop_append_of_le_length hle]
  · rw [(trigPut_queue _).2, h2]; rfl

theorem move_queue {s : BufStore} (h : Pre s) (hm : s.cfg.mode = .fifo) (e : BEntry) :
    ∃ new g, free s ++ new = g ++ free (s.move e) ∧ (s.move e).resItems = s.resItems ++ g ∧ new.length ≤ 1 ∧ g.length ≤ 1 := by
  unfold BufStore.move
  split
  · obtain ⟨g, h1, h2, h3⟩ := arrive_trig_queue h hm e
    exact ⟨[e], g, h1, h2, by simp, h3⟩
  · exact ⟨[], [], by simp [free], by simp, by simp, by simp⟩

/-- cancelling a GRANTED retrieval puts its entry back at the front of the free list; cancelling a waiting request (or a
    rejected call) leaves it alone; the trigger that follows may serve one request from the front -/
theorem cancelGet_queue {s : BufStore} (h : Pre s) (hm : s.cfg.mode = .fifo) (tid : Nat) :
    ∃ rel g base, rel ++ free s = g ++ free (s.cancelGet tid).1 ∧ (s.cancelGet tid).1.resItems = base ++ g ∧ g.length ≤ 1 ∧
      ((rel = [] ∧ base = s.resItems) ∨
       (∃ t e, findTok s.getRes tid = some t ∧ s.resItems[s.resEv.idxOf t]? = some e ∧ rel = [e] ∧
               base = s.resItems.eraseIdx (s.resEv.idxOf t))) := by
  unfold BufStore.cancelGet
  split
  · rename_i t ht
    have hl : ({ s with getQ := s.getQ.erase t } : BufStore).resEv.length = ({ s with getQ := s.getQ.erase t } : BufStore).getRes.length := h.bindEv.length_eq
    obtain ⟨g, h1, h2, h3⟩ := trigGet_queue hl (s := { s with getQ := s.getQ.erase t }) hm
    exact ⟨[], g, s.resItems, h1, h2, h3, Or.inl ⟨rfl, rfl⟩⟩
  · split
    · rename_i t ht
      have htm : t ∈ s.getRes := by unfold findTok at ht; exact List.mem_of_find?_eq_some ht
      have htr : t ∈ s.resEv := h.bindEv.mem_iff.mpr htm
      have hidx : s.resEv.idxOf t < s.resEv.length := List.idxOf_lt_length_of_mem htr
      split
      · exfalso; omega
      · split
        · rename_i hn
          exfalso
          rw [List.getElem?_eq_none_iff] at hn
          have := h.bindLen; omega
        · rename_i e he
          have hem : e ∈ s.resItems := List.mem_of_getElem? he
          have hx := key_mem_take h hm hem
          have hxr : bk e ∈ s.ready.map bk := by
            rcases List.mem_map.mp hx with ⟨a, ha, hk⟩
            exact List.mem_map.mpr ⟨a, List.mem_of_mem_take ha, hk⟩
          split
          · have hl1 := PosStore.length_eraseIdx_lt hidx
            have hk : (s.resEv.eraseIdx (s.resEv.idxOf t)).length = s.resEv.length - 1 := by omega
            have hgl : (s.getRes.erase t).length + 1 = s.getRes.length := by
              rw [List.length_erase_of_mem htm]; have := List.length_pos_of_mem htm; omega
            have hl : (((s.unbind t (s.resEv.idxOf t)).release e)).resEv.length = (((s.unbind t (s.resEv.idxOf t)).release e)).getRes.length := by
              show (s.resEv.eraseIdx (s.resEv.idxOf t)).length = (s.getRes.erase t).length
              have := h.bindEv.length_eq; omega
            have hm' : (((s.unbind t (s.resEv.idxOf t)).release e)).cfg.mode = .fifo := hm
            obtain ⟨g, q1, q2, q3⟩ := trigGet_queue hl hm'
            refine ⟨[e], g, s.resItems.eraseIdx (s.resEv.idxOf t), ?_, q2, q3, Or.inr ⟨t, e, ht, he, rfl, rfl⟩⟩
            rw [← q1]
            have hrl := removeKey_length bk s.ready (bk e) hxr
            have hle := h.bindLe
            have hrd : ((s.unbind t (s.resEv.idxOf t)).release e).ready = pyInsert (removeKey bk s.ready (bk e)) (s.resEv.length - 1) e := by
              simp only [release, unbind, hm]; rw [hk, removeItem_eq]; rfl
            show [e] ++ s.ready.drop s.resEv.length = ((s.unbind t (s.resEv.idxOf t)).release e).ready.drop (s.resEv.eraseIdx (s.resEv.idxOf t)).length
            rw [hrd, hk, drop_pyInsert _ _ _ (by omega), drop_removeKey bk s.ready (bk e) s.resEv.length hx]; rfl
          · rename_i hany
            exfalso
            exact hany (hasItem_of_key hxr e.item rfl)
    · exact ⟨[], [], s.resItems, by simp, by simp, by simp, Or.inl ⟨rfl, rfl⟩⟩

end BufStore

namespace FleetStore
open BufStore

/-- one item of an arriving trip is unloaded: it joins the free list of the fleet's store at the back -/
theorem moveOne_queue {s : FleetStore} (h : KT s) (e : BEntry) :
    ∃ new g, free s.b ++ new = g ++ free (s.moveOne e).b ∧ (s.moveOne e).b.resItems = s.b.resItems ++ g ∧ new.length ≤ 1 ∧ g.length ≤ 1 := by
  have hm : s.b.cfg.mode = .fifo := by rw [h.cfgB]
  unfold FleetStore.moveOne
  split
  · exact ⟨[], [], by simp [free], by simp, by simp, by simp⟩
  · split
    · obtain ⟨g, h1, h2, h3⟩ := arrive_trig_queue h.core.toPre hm e
      exact ⟨[e], g, h1, h2, by simp, h3⟩
    · exact ⟨[], [], by simp [free], by simp, by simp, by simp⟩

end FleetStore
end FsVerif
