/-
Machine automaton: the state-time accounting invariant `MStat` (Proofs/MachineStat.lean) holds after EVERY activation sequence
the automaton accepts (C17): each of the two documented state groups and the worker-occupancy histogram partition the time since
the end of the set-up period, the set-up period is charged to SETUP_STATE, and no recorded change lies in the future.
-/
import FsVerif.Proofs.MachineStat
namespace FsVerif
namespace MacState

/-- what the statistics invariant reads -/
def sv (s : MacState) : MacCfg × MTT × Option Nat × Option (Int × Int) × List Nat × Nat × Option Nat × Nat × Nat × BPc :=
  (s.cfg, s.tt, s.last, s.rep, s.occ, s.lastOcc, s.tEnd, s.now, s.numWorkers, s.bpc)

/-- after the set-up period: the invariant, the current instant, and a recorded last change -/
structure ML (s : MacState) (t : Nat) : Prop where
  st : MStat s
  now : s.now = t
  last : s.last ≠ none
  pc : s.bpc ≠ .start ∧ s.bpc ≠ .setupWait

theorem ML.frame {s s' : MacState} {t : Nat} (h : ML s t) (e : sv s' = sv s) : ML s' t := by
  simp only [sv, Prod.mk.injEq] at e
  obtain ⟨e1, e2, e3, e4, e5, e6, e7, e8, _, e10⟩ := e
  exact ⟨mstat_of_eq h.st e1 e2 e3 e4 e5 e6 e7 e8 (by rw [e10]; exact id), by rw [e8]; exact h.now, by rw [e3]; exact h.last, by rw [e10]; exact h.pc⟩

/-- the same, when the behaviour process moves to a program counter that is not one of the two set-up ones -/
theorem ML.frameB {s s' : MacState} {t : Nat} (h : ML s t) (e1 : s'.cfg = s.cfg) (e2 : s'.tt = s.tt) (e3 : s'.last = s.last)
    (e4 : s'.rep = s.rep) (e5 : s'.occ = s.occ) (e6 : s'.lastOcc = s.lastOcc) (e7 : s'.tEnd = s.tEnd) (e8 : s'.now = s.now)
    (hb : s'.bpc ≠ .start ∧ s'.bpc ≠ .setupWait) : ML s' t :=
  ⟨mstat_of_eq h.st e1 e2 e3 e4 e5 e6 e7 e8 (by intro hx; rcases hx with hx | hx; exact absurd hx hb.1; exact absurd hx hb.2),
   by rw [e8]; exact h.now, by rw [e3]; exact h.last, hb⟩

theorem ML.upd {s : MacState} {t : Nat} (h : ML s t) : ML (s.updRep t) t :=
  ⟨updRep_mstat' h.st h.now h.last, by simp [h.now], by simp, by simpa using h.pc⟩

theorem sv_grantQueued (s : MacState) : sv s.grantQueued = sv s := by
  unfold grantQueued; split <;> rfl

theorem ML.occRemove {s : MacState} {t : Nat} (h : ML s t) (hi : s.numWorkers < s.occ.length) : ML (s.occRemove t) t :=
  ⟨occRemove_mstat h.st h.now hi, h.now, h.last, h.pc⟩

theorem ML.occAdd {s : MacState} {t : Nat} (h : ML s t) (hi : s.numWorkers < s.occ.length) : ML (s.occAdd t) t :=
  ⟨occAdd_mstat h.st h.now hi, h.now, h.last, h.pc⟩

theorem worker_ml {s : MacState} {t : Nat} (i : Nat) (w : Worker) (a : Ans) (h : ML s t) : ML (s.worker i w t a).1 t := by
  unfold worker
  split
  · exact h.upd.frame rfl
  · split
    · split
      · exact ((h.upd.frame (s' := (s.updRep t).setWorker i { w with blocked := true }) rfl).upd.frame rfl)
      · simp only
        split
        · exact (((h.frame (s' := { s with outsel := s.outsel ++ [_] }) rfl).upd.frame
            (s' := (({ s with outsel := s.outsel ++ [_] } : MacState).updRep t).setWorker i { w with blocked := true }) rfl).upd.frame rfl)
        · exact h.frame rfl
    · simp only
      split
      · exact h.frame rfl
      · split
        · exact h.frame rfl
        · split
          · exact (((h.frame (s' := ({ s with rrOut := _, outsel := s.outsel ++ [_] } : MacState).setWorker i { w with blocked := true }) rfl).upd).frame rfl)
          · split
            · exact (((h.frame (s' := ({ s with rrOut := _, outsel := s.outsel ++ [_] } : MacState).setWorker i { w with blocked := true }) rfl).upd).frame rfl)
            · exact (((h.frame (s' := ({ s with rrOut := _, outsel := s.outsel ++ [_] } : MacState).setWorker i { w with blocked := true }) rfl).upd).frame rfl)
            · exact h.frame rfl
  · split
    · exact ((h.frame (s' := { s with outsel := s.outsel ++ [_], processed := s.processed + 1, pushedItems := s.pushedItems ++ [w.item], openToks := _ }) rfl).upd.frame rfl)
    · exact h.frame rfl
  · split
    · exact h.frame rfl
    · exact h.frame rfl
  · split
    · split
      · exact h.frame rfl
      · simp only
        split
        · exact ((h.frame (s' := { s with processed := s.processed + 1 }) rfl).upd.frame rfl)
        · exact h.frame rfl
    · exact h.frame rfl
  · simp only
    split
    · exact (h.frame (sv_grantQueued s)).frame rfl
    · rename_i hi
      have h0 : ML (s.grantQueued.setWorker i { w with pc := .done, inList := false }) t := (h.frame (sv_grantQueued s)).frame rfl
      have hi' : (s.grantQueued.setWorker i { w with pc := .done, inList := false }).numWorkers <
          (s.grantQueued.setWorker i { w with pc := .done, inList := false }).occ.length := by
        simp only [setWorker]; omega
      exact (h0.occRemove hi').upd
  · exact h.frame rfl
  · exact h.frame rfl

theorem pushStep_ml {s : MacState} {t : Nat} (p : MPush) (a : Ans) (h : ML s t) : ML (s.pushStep p a).1 t := by
  unfold pushStep
  repeat' split
  all_goals exact h.frame rfl

theorem requestSlot_ml {s : MacState} {t : Nat} (h : ML s t) : ML (s.requestSlot t) t := by
  unfold requestSlot
  simp only
  split
  · exact h.upd.frameB rfl rfl rfl rfl rfl rfl rfl rfl ⟨by simp, by simp⟩
  · exact h.upd.frameB rfl rfl rfl rfl rfl rfl rfl rfl ⟨by simp, by simp⟩

theorem afterPull_ml {s : MacState} {t : Nat} (it : Nat) (a : Ans) (pre : List Call) (h : ML s t) : ML (s.afterPull t it a pre).1 t := by
  unfold afterPull
  split
  · refine requestSlot_ml ?_
    exact (h.frame (s' := { s with workers := _, nextProc := _, pds := _, pulled := _, bSlot := false, granted := false }) rfl).upd
  · exact h.frameB rfl rfl rfl rfl rfl rfl rfl rfl ⟨by simp, by simp⟩

/-- the behaviour process after the set-up period -/
theorem behaviour_ml {s : MacState} {t : Nat} (a : Ans) (h : ML s t) :
    ML (s.behaviour t a).1 t := by
  have hb := h.pc
  unfold behaviour
  split
  · rename_i hpc; exact absurd hpc hb.1
  · rename_i hpc; exact absurd hpc hb.2
  · split
    · exact h.frame rfl
    · split
      · exact h.frameB rfl rfl rfl rfl rfl rfl rfl rfl ⟨by simp [crashB], by simp [crashB]⟩
      · rename_i hi
        have h1 : ML (s.occAdd t) t := h.occAdd (by omega)
        split
        · exact h1.frameB rfl rfl rfl rfl rfl rfl rfl rfl ⟨by simp, by simp⟩
        · simp only
          split
          · exact h1.frameB rfl rfl rfl rfl rfl rfl rfl rfl ⟨by simp, by simp⟩
          · split
            · exact h1.frameB rfl rfl rfl rfl rfl rfl rfl rfl ⟨by simp [crashB], by simp [crashB]⟩
            · exact h1.frameB rfl rfl rfl rfl rfl rfl rfl rfl ⟨by simp, by simp⟩
  · split
    · exact afterPull_ml _ a _ (h.frame rfl)
    · exact h.frameB rfl rfl rfl rfl rfl rfl rfl rfl ⟨by simp [crashB], by simp [crashB]⟩
    · exact h.frame rfl
  · split
    · exact h.frame rfl
    · split
      · exact afterPull_ml _ a _ (h.frame rfl)
      · exact h.frame rfl
  · exact h.frame rfl

/-- the invariant over whole runs: `MStat`, and before the first recorded change the machine is still setting up (or died at once) and
    has no worker or push process -/
structure MR (s : MacState) : Prop where
  st : MStat s
  early : s.last = none → (s.bpc = .start ∨ s.bpc = .setupWait ∨ s.bpc = .dead) ∧ s.workers = [] ∧ s.pushes = []
  late : s.last ≠ none → s.bpc ≠ .start ∧ s.bpc ≠ .setupWait

theorem init_mr (cfg : MacCfg) : MR (init cfg) :=
  ⟨init_mstat cfg, fun _ => ⟨Or.inl rfl, rfl, rfl⟩, fun h => absurd rfl h⟩

theorem ML.mr {s : MacState} {t : Nat} (h : ML s t) : MR s :=
  ⟨h.st, fun h0 => absurd h0 h.last, fun _ => h.pc⟩

theorem mstat_later {s : MacState} (h : MStat s) (t : Nat) (hle : s.now ≤ t) : MStat { s with now := t } := by
  obtain ⟨a, b, c, d⟩ := h
  refine ⟨?_, b, ⟨c.1, Nat.le_trans c.2 hle⟩, d⟩
  cases hl : s.last with
  | none => rw [hl] at a; simpa [hl] using a
  | some l =>
    rw [hl] at a
    obtain ⟨h1, rest⟩ := a
    simp only [hl]
    exact ⟨Nat.le_trans h1 hle, rest⟩

theorem updRep_with_bpc (s : MacState) (b : BPc) (t : Nat) : ({ s with bpc := b } : MacState).updRep t = { (s.updRep t) with bpc := b } := by
  unfold updRep
  rcases hr : s.rep with _ | ⟨p, q⟩ <;> rcases hl : s.last with _ | l <;> simp [hr, hl, count]

/-- the two set-up steps of the behaviour process (nothing has been charged yet) -/
theorem behaviour_early {s : MacState} {t : Nat} (a : Ans) (h : MR s) (hnow : s.now = t) (hl : s.last = none) : MR (s.behaviour t a).1 := by
  obtain ⟨hst, hearly, _⟩ := h
  obtain ⟨hpc, hw, hp⟩ := hearly hl
  obtain ⟨ha, hb, hc, hd⟩ := hst
  rw [hl] at ha
  unfold behaviour
  split
  · rename_i hpc0
    split
    · refine ⟨⟨by simp [hl]; exact ha, hb, hc, fun hx => by simp at hx⟩, fun _ => ⟨Or.inr (Or.inr rfl), hw, hp⟩, fun hx => absurd hl hx⟩
    · refine ⟨⟨by simp [hl]; exact ha, hb, hc, fun _ => hd (Or.inl hpc0)⟩, fun _ => ⟨Or.inr (Or.inl rfl), hw, hp⟩, fun hx => absurd hl hx⟩
  · rename_i hpc0
    have hte : s.tEnd = none := (hd (Or.inr hpc0)).1
    have hsetup : s.tt.setup = 0 := by rw [hb, hte]; rfl
    -- the state right after the set-up wait, with the program counter already moved on
    have hM : MStat ({ s with tt := { s.tt with setup := s.tt.setup + s.cfg.setup }, rep := some (0, 0), tEnd := some t, bpc := .slotWait } : MacState) := by
      refine ⟨by simp [hl]; exact ha, by simp [hsetup], hc, fun hx => by simp at hx⟩
    have h2 := updRep_mstat (t := t) hM hnow (fun _ => ⟨rfl, rfl⟩)
    have hML : ML (({ s with tt := { s.tt with setup := s.tt.setup + s.cfg.setup }, rep := some (0, 0), tEnd := some t, bpc := .slotWait } : MacState).updRep t) t :=
      ⟨h2, by simp [hnow], by simp, by simp⟩
    have hML2 := hML.upd
    have e1 : (({ s with tt := { s.tt with setup := s.tt.setup + s.cfg.setup }, rep := some (0, 0), tEnd := some t, bpc := .slotWait } : MacState).updRep t).updRep t =
        { ((({ s with tt := { s.tt with setup := s.tt.setup + s.cfg.setup }, rep := some (0, 0), tEnd := some t } : MacState).updRep t).updRep t) with bpc := .slotWait } := by
      have := updRep_with_bpc ({ s with tt := { s.tt with setup := s.tt.setup + s.cfg.setup }, rep := some (0, 0), tEnd := some t } : MacState) .slotWait t
      rw [this, updRep_with_bpc]
    rw [e1] at hML2
    simp only
    refine ML.mr (t := t) ?_
    unfold requestSlot
    simp only
    split
    · exact hML2.frameB rfl rfl rfl rfl rfl rfl rfl rfl ⟨by simp, by simp⟩
    · exact hML2.frameB rfl rfl rfl rfl rfl rfl rfl rfl ⟨by simp, by simp⟩
  all_goals
    (rename_i hpc0
     first
      | exact ⟨mstat_of_eq ⟨by rw [hl]; exact ha, hb, hc, hd⟩ rfl rfl rfl rfl rfl rfl rfl rfl id, fun _ => ⟨Or.inr (Or.inr hpc0), hw, hp⟩, fun hx => absurd hl hx⟩
      | (exfalso; rcases hpc with hx | hx | hx <;> (rw [hpc0] at hx; cases hx)))

theorem step_mr {s : MacState} (proc t : Nat) (a : Ans) (h : MR s) : MR (s.step proc t a).1 := by
  unfold step
  split
  · exact ⟨mstat_of_eq h.st rfl rfl rfl rfl rfl rfl rfl rfl id, h.early, h.late⟩
  · rename_i hlt
    have hle : s.now ≤ t := by omega
    have hst' : MStat { s with now := t } := mstat_later h.st t hle
    simp only
    by_cases hl : s.last = none
    · obtain ⟨hpc, hw, hp⟩ := h.early hl
      split
      · exact behaviour_early a ⟨hst', h.early, h.late⟩ rfl hl
      · simp only [hw, hp, List.findIdx?_nil, List.find?_nil]
        exact ⟨mstat_of_eq hst' rfl rfl rfl rfl rfl rfl rfl rfl id, fun _ => ⟨hpc, rfl, rfl⟩, fun hx => absurd hl hx⟩
    · have hb := h.late hl
      have hml : ML { s with now := t } t := ⟨hst', rfl, hl, hb⟩
      split
      · exact (behaviour_ml a hml).mr
      · split
        · split
          · exact (worker_ml _ _ a hml).mr
          · exact (hml.frame (s' := { s with now := t, flagged := true }) rfl).mr
        · split
          · exact (pushStep_ml _ a hml).mr
          · exact (hml.frame (s' := { s with now := t, flagged := true }) rfl).mr

theorem runActs_mr (acts : List Act) : ∀ {s : MacState}, MR s → MR (runActs s acts) := by
  induction acts with
  | nil => intro s h; exact h
  | cons x xs ih => intro s h; exact ih (step_mr x.proc x.t x.ans h)

end MacState
end FsVerif
