/-
Helper lemmas on the list utilities of Model/Basic.lean.
-/
import FsVerif.Model.Basic
namespace FsVerif

theorem insSorted_perm (t : Tok) (l : List Tok) : (insSorted t l).Perm (t :: l) := by
  induction l with
  | nil => simp [insSorted]
  | cons x xs ih =>
    unfold insSorted
    split
    · exact List.Perm.refl _
    · exact (List.Perm.cons x ih).trans (List.Perm.swap t x xs)

theorem insSorted_length (t : Tok) (l : List Tok) : (insSorted t l).length = l.length + 1 := by
  simpa using (insSorted_perm t l).length_eq

theorem mem_insSorted {t a : Tok} {l : List Tok} : a ∈ insSorted t l ↔ a = t ∨ a ∈ l := by
  simpa using (insSorted_perm t l).mem_iff

/-- Priority order with arrival (token id) as tie-break. -/
def Tok.before (a b : Tok) : Prop := a.prio < b.prio ∨ (a.prio = b.prio ∧ a.id < b.id)

instance (a b : Tok) : Decidable (a.before b) := by unfold Tok.before; infer_instance

/-- A queue is in service order: by priority, FCFS (by id) among equals. -/
def QSorted (l : List Tok) : Prop := l.Pairwise Tok.before

theorem insSorted_sorted {t : Tok} {l : List Tok} (h : QSorted l) (hnew : ∀ a ∈ l, a.id < t.id) :
    QSorted (insSorted t l) := by
  induction l with
  | nil => simp [insSorted, QSorted]
  | cons x xs ih =>
    unfold insSorted
    have hx : QSorted xs := (List.pairwise_cons.mp h).2
    have hxa := (List.pairwise_cons.mp h).1
    split
    · rename_i hlt
      refine List.pairwise_cons.mpr ⟨?_, h⟩
      intro a ha
      rcases List.mem_cons.mp ha with rfl | ha
      · exact Or.inl hlt
      · have := hxa a ha
        unfold Tok.before at this ⊢
        rcases this with h1 | ⟨h1, _⟩ <;> left <;> omega
    · rename_i hnlt
      have ih' := ih hx (fun a ha => hnew a (List.mem_cons_of_mem _ ha))
      refine List.pairwise_cons.mpr ⟨?_, ih'⟩
      intro a ha
      rcases mem_insSorted.mp ha with rfl | ha
      · have := hnew x (List.mem_cons_self)
        unfold Tok.before
        by_cases he : x.prio = a.prio
        · right; exact ⟨he, this⟩
        · left; omega
      · exact hxa a ha

/-- On a sorted queue the stable sort is the identity … -/
theorem foldl_insSorted_sorted (acc l : List Tok) (h : QSorted (acc ++ l)) :
    l.foldl (fun acc x => insSorted x acc) acc = acc ++ l := by
  induction l generalizing acc with
  | nil => simp
  | cons x xs ih =>
    simp only [List.foldl_cons]
    have hins : insSorted x acc = acc ++ [x] := by
      have hacc : ∀ a ∈ acc, a.before x := by
        intro a ha
        have := List.pairwise_append.mp h
        exact this.2.2 a ha x (List.mem_cons_self)
      clear ih h
      induction acc with
      | nil => simp [insSorted]
      | cons y ys ihy =>
        unfold insSorted
        have hy := hacc y (List.mem_cons_self)
        have : ¬ x.prio < y.prio := by unfold Tok.before at hy; omega
        simp only [this, ite_false, List.cons_append]
        rw [ihy (fun a ha => hacc a (List.mem_cons_of_mem _ ha))]
    rw [hins, ih]
    · simp
    · simpa using h

theorem stableSort_sorted_id (l : List Tok) (h : QSorted l) : stableSort l = l := by
  unfold stableSort
  simpa using foldl_insSorted_sorted [] l (by simpa using h)

/-- … hence `append` + `sort` on a sorted queue is a single ordered insertion. -/
theorem stableSort_append_one {q : List Tok} {t : Tok} (h : QSorted q) :
    stableSort (q ++ [t]) = insSorted t q := by
  unfold stableSort
  rw [List.foldl_append]
  have := foldl_insSorted_sorted [] q (by simpa using h)
  simp at this
  simp [this]

theorem findTok_some {l : List Tok} {tid : Nat} {t : Tok} (h : findTok l tid = some t) :
    t ∈ l ∧ t.id = tid := by
  unfold findTok at h
  have h1 := List.mem_of_find?_eq_some h
  have h2 := List.find?_some h
  exact ⟨h1, by simpa using h2⟩

theorem findTok_none {l : List Tok} {tid : Nat} (h : findTok l tid = none) :
    ∀ t ∈ l, t.id ≠ tid := by
  unfold findTok at h
  intro t ht
  have := List.find?_eq_none.mp h t ht
  simpa using this

@[simp] theorem pyInsert_length {α} (l : List α) (i : Nat) (a : α) :
    (pyInsert l i a).length = l.length + 1 := by
  unfold pyInsert; simp; omega

theorem pyInsert_perm {α} (l : List α) (i : Nat) (a : α) : (pyInsert l i a).Perm (a :: l) := by
  unfold pyInsert
  have h : (l.take i ++ a :: l.drop i).Perm (a :: (l.take i ++ l.drop i)) := List.perm_middle
  simpa using h

end FsVerif
