/-
Splitter automaton: the state the splitter publishes (IDLE / PROCESSING / BLOCKED) is the state its workers are actually in,
after every activation — for every activation sequence in which no activation dies of the IndexError of
`time_per_work_occupancy[num_workers]`.  `cls s` classifies the actual worker flags the way
`check_thread_state_and_update_splitter_state` does; `TP s`: the published state is SETUP (nothing has happened yet)
or it is `cls s`.  Whenever worker flags change, the state check runs in the same activation, after the change.
(The Combiner processes inside its behaviour process and sets PROCESSING by hand; its accounting is judged on recorded runs.)
-/
import FsVerif.Proofs.PackClock
import FsVerif.Proofs.Pack
import FsVerif.Proofs.PackB
namespace FsVerif
namespace PackState

/-- the classification of `check_thread_state_and_update_*_state` on the actual worker flags: 1 idle, 2 processing, 3 blocked -/
def cls (s : PackState) : Nat :=
  if s.count.1 = 0 ∧ s.count.2 = 0 then 1 else if s.count.1 > 0 then 2 else 3

theorem count_congr {s s' : PackState} (e : s'.workers = s.workers) : s'.count = s.count := by
  unfold count; rw [e]

theorem cls_congr {s s' : PackState} (e : s'.workers = s.workers) : cls s' = cls s := by
  unfold cls; rw [count_congr e]

theorem pfilter_set_len {l : List PWorker} {i : Nat} {w w' : PWorker} (h : l[i]? = some w) (p : PWorker → Bool) (hp : p w' = p w) :
    ((l.set i w').filter p).length = (l.filter p).length := by
  induction l generalizing i with
  | nil => simp at h
  | cons x xs ih =>
    cases i with
    | zero =>
      simp at h; subst h
      simp only [List.set_cons_zero, List.filter_cons, hp]
      split <;> simp
    | succ n =>
      simp at h
      simp only [List.set_cons_succ, List.filter_cons]
      split <;> simp [ih h]

theorem count_setW {s : PackState} {i : Nat} {w w' : PWorker} (h : s.workers[i]? = some w)
    (e1 : w'.inList = w.inList) (e2 : w'.blocked = w.blocked) : (s.setW i w').count = s.count := by
  unfold count setW
  simp only
  rw [pfilter_set_len h (fun w => w.inList && !w.blocked) (by simp [e1, e2]),
      pfilter_set_len h (fun w => w.inList && w.blocked) (by simp [e1, e2])]

theorem update_cur {n : Nat} (c : StateClock n) (k t : Nat) : (c.update k t).cur = k := by
  unfold StateClock.update; split <;> rfl

theorem chk!_cur (s : PackState) (t : Nat) : (s.chk! t).clock.cur = cls s := by
  have hs := chk_isSome s t
  unfold chk! chk cls at *
  simp only at hs ⊢
  split
  · rename_i h0; simp [h0, update_cur]
  · rename_i h0
    split
    · rename_i h1; simp [h0, h1, update_cur]
    · rename_i h1
      split
      · simp [h0, h1, update_cur]
      · rename_i h2
        exfalso
        simp [h0, h1, h2] at hs

/-- the published state is SETUP (index 0: nothing has been recorded yet) or it is the actual state of the workers -/
def TP (s : PackState) : Prop := s.clock.cur = 0 ∨ s.clock.cur = cls s

theorem TP.chk (s : PackState) (t : Nat) : TP (s.chk! t) := by
  right; rw [chk!_cur, cls_congr (chk!_workers s t)]

theorem TP.congr {s s' : PackState} (h : TP s) (e1 : s'.clock = s.clock) (e2 : s'.workers = s.workers) : TP s' := by
  unfold TP at *; rw [e1, cls_congr e2]; exact h

theorem TP.setW {s : PackState} (h : TP s) {i : Nat} {w w' : PWorker} (hw : s.workers[i]? = some w)
    (e1 : w'.inList = w.inList) (e2 : w'.blocked = w.blocked) : TP (s.setW i w') := by
  unfold TP cls at *
  rw [count_setW hw e1 e2]; exact h

theorem setW_get {s : PackState} {i : Nat} {w : PWorker} (hw : s.workers[i]? = some w) (w' : PWorker) :
    (s.setW i w').workers[i]? = some w' := by
  have hlt : i < s.workers.length := by
    rcases Nat.lt_or_ge i s.workers.length with h | h
    · exact h
    · rw [List.getElem?_eq_none h] at hw; cases hw
  simp [setW, List.getElem?_set_self hlt]

theorem TP.releaseW {s : PackState} (h : TP s) {i : Nat} {w0 w : PWorker} (hw : s.workers[i]? = some w0)
    (e1 : w.inList = w0.inList) (e2 : w.blocked = w0.blocked) : TP (s.releaseW i w) := by
  unfold PackState.releaseW
  exact (h.setW hw (w' := { w with pc := .released, cur := none }) e1 e2).congr rfl rfl

/-- the emission loop of a worker: every branch either leaves the worker flags alone or runs the state check after changing them -/
theorem emitLoop_tp (i t : Nat) : ∀ (todo : List Unit') (s : PackState) (w : PWorker) (cans : List Bool) (sels : List Int) (acc : List Call),
    s.workers[i]? = some w → TP s → TP (s.emitLoop i w t todo cans sels acc).1 := by
  intro todo
  induction todo with
  | nil =>
    intro s w cans sels acc hw h
    unfold emitLoop
    exact h.releaseW hw rfl rfl
  | cons u rest ih =>
    intro s w cans sels acc hw h
    unfold emitLoop
    simp only
    split
    · exact h.congr rfl rfl
    · refine TP.setW (w := w) ?_ ?_ rfl rfl
      · exact h.congr rfl rfl
      · exact hw
    · -- startAny: the worker turns blocked, the state check runs, then only its program counter moves
      unfold startAny
      simp only
      refine TP.setW (w := markW w u rest) ?_ ?_ rfl rfl
      · exact (TP.chk _ t).congr rfl rfl
      · show (PackState.chk! _ t).workers[i]? = _
        rw [chk!_workers]; exact setW_get (by rw [chk!_workers]; exact hw) _
    · unfold startTok
      simp only
      refine TP.setW (w := markW w u rest) ?_ ?_ rfl rfl
      · exact (TP.chk _ t).congr rfl rfl
      · show (PackState.chk! _ t).workers[i]? = _
        rw [chk!_workers]; exact setW_get (s := s.commit _) hw _
    · unfold startPush
      simp only
      refine TP.setW (w := { markW w u rest with cur := none }) ?_ ?_ rfl rfl
      · exact (TP.chk _ t).congr rfl rfl
      · show (PackState.chk! _ t).workers[i]? = _
        rw [chk!_workers]
        split
        · exact setW_get (s := (s.chk! t).commit _) (by show (s.chk! t).workers[i]? = _; rw [chk!_workers]; exact hw) _
        · exact setW_get (s := s.commit _) hw _
    · -- dropUnit, then the loop goes on with the next unit
      rename_i mark hdec
      unfold dropUnit
      simp only
      refine ih _ _ _ _ _ ?_ ?_
      · show (PackState.workers _)[i]? = _
        split
        · show (PackState.chk! _ t).workers[i]? = _
          rw [chk!_workers]; exact setW_get (s := s.commit _) hw _
        · exact setW_get (s := s.commit _) hw _
      · split
        · rename_i hm
          exact (TP.chk _ t).congr rfl rfl
        · rename_i hm
          have hmf : mark = false := by simpa using hm
          refine TP.congr (s := (s.commit _).setW i _) ?_ rfl rfl
          refine TP.setW (w := w) (h.congr rfl rfl) hw rfl ?_
          simp [hmf]


theorem worker_tp {s : PackState} {t : Nat} (i : Nat) (w : PWorker) (a : Ans) (hw : s.workers[i]? = some w) (h : TP s)
    (hq : Call.crash .index ∉ (s.worker i w t a).2) : TP (s.worker i w t a).1 := by
  unfold worker
  split
  · split
    · refine TP.setW (w := w) (TP.chk s t) ?_ rfl rfl
      rw [chk!_workers]; exact hw
    · exact emitLoop_tp i t _ s w _ _ _ hw h
  · split
    · exact h.setW hw rfl rfl
    · exact emitLoop_tp i t _ s w _ _ _ hw h
  · split
    · refine emitLoop_tp i t _ _ _ _ _ _ ?_ ?_
      · exact setW_get (s := { s with outsel := _, processed := _, emitted := _ }) hw _
      · refine TP.setW (w := w) ?_ ?_ rfl rfl
        · exact h.congr rfl rfl
        · exact hw
    · exact h.setW hw rfl rfl
  · split
    · split
      · exact h.congr rfl rfl
      · refine emitLoop_tp i t _ _ _ _ _ _ ?_ ?_
        · exact setW_get (s := { s with processed := _, emitted := _ }) hw _
        · refine TP.setW (w := w) ?_ ?_ rfl rfl
          · exact h.congr rfl rfl
          · exact hw
    · exact h.congr rfl rfl
  · split
    · split
      · exact h.congr rfl rfl
      · exact emitLoop_tp i t _ _ w _ _ _ (by exact hw) (h.congr rfl rfl)
    · exact h.congr rfl rfl
  · rename_i hpc
    simp only
    split
    · rename_i hi
      exfalso; apply hq
      unfold worker
      simp only [hpc]
      simp [hi]
    · exact (TP.chk _ t)
  · exact h.congr rfl rfl
  · exact h.congr rfl rfl

theorem pushStep_tp {s : PackState} (p : PPush) (a : Ans) (h : TP s) : TP (s.pushStep p a).1 := by
  unfold pushStep
  split
  · exact h.congr rfl rfl
  · split
    · exact h.congr rfl rfl
    · exact h.congr rfl rfl

theorem splitterTop_tp (s : PackState) (t : Nat) (a : Ans) (pre : List Call) : TP (s.splitterTop t a pre).1 := by
  unfold splitterTop
  simp only
  split
  · exact (TP.chk s t).congr rfl rfl
  · split
    · exact (TP.chk s t).congr rfl rfl
    · split
      · exact (TP.chk s t).congr rfl rfl
      · exact (TP.chk s t).congr rfl rfl

theorem requestSlot_tp {s : PackState} (h : TP s) : TP s.requestSlot := by
  unfold requestSlot; split <;> exact h.congr rfl rfl

theorem bSplit_tp {s : PackState} (t : Nat) (a : Ans) (h : TP s) : TP (s.bSplit t a).1 := by
  unfold bSplit
  split
  · unfold startB; split
    · exact h.congr rfl rfl
    · exact h.congr rfl rfl
  · exact splitterTop_tp _ t a _
  · split
    · refine TP.congr (s := PackState.requestSlot _) ?_ rfl rfl
      refine requestSlot_tp ?_
      exact h.congr rfl rfl
    · exact h.congr rfl rfl
  · split
    · exact h.congr rfl rfl
    · exact TP.congr (s := s.requestSlot) (requestSlot_tp h) rfl rfl
  · split
    · exact h.congr rfl rfl
    · split
      · exact h.congr rfl rfl
      · split
        · exact splitterTop_tp _ t a _
        · exact h.congr rfl rfl
  · exact h.congr rfl rfl

/-- no activation dies of the IndexError of `time_per_work_occupancy[num_workers]` -/
def NoIndexCrash (s : PackState) : List Act → Prop
  | [] => True
  | x :: xs => Call.crash .index ∉ (s.step x.1 x.2.1 x.2.2).2 ∧ NoIndexCrash (s.step x.1 x.2.1 x.2.2).1 xs

theorem step_tp {s : PackState} (proc t : Nat) (a : Ans) (hk : s.cfg.kind = .splitter) (h : TP s)
    (hq : Call.crash .index ∉ (s.step proc t a).2) : TP (s.step proc t a).1 := by
  unfold step at hq ⊢
  by_cases hlt : t < s.now
  · simp only [hlt, ↓reduceIte]; exact h.congr rfl rfl
  · simp only [hlt, ↓reduceIte] at hq ⊢
    have h' : TP ({ s with now := t } : PackState) := h.congr rfl rfl
    by_cases h0 : proc = 0
    · simp only [h0, ↓reduceIte]
      unfold behaviour
      simp only [hk]
      exact bSplit_tp t a h'
    · simp only [h0, ↓reduceIte] at hq ⊢
      cases hf : s.workers.findIdx? (fun w => w.ord = proc) with
      | some i =>
        simp only [hf] at hq ⊢
        cases hw : s.workers[i]? with
        | some w =>
          simp only [hw] at hq ⊢
          exact worker_tp i w a (s := { s with now := t }) hw h' hq
        | none =>
          simp only [hw]
          exact h'.congr rfl rfl
      | none =>
        simp only [hf]
        split
        · exact pushStep_tp _ a h'
        · exact h'.congr rfl rfl

theorem run_tp (acts : List Act) : ∀ (s : PackState), Inv s → s.cfg.kind = .splitter → TP s → NoIndexCrash s acts → TP (run s acts) := by
  induction acts with
  | nil => intro s _ _ h _; exact h
  | cons x xs ih =>
    intro s hi hk h hq
    obtain ⟨h1, h2⟩ := step_inv s x.1 x.2.1 x.2.2 hi
    exact ih _ h1 (by rw [h2]; exact hk) (step_tp x.1 x.2.1 x.2.2 hk h hq.1) hq.2

end PackState
end FsVerif
