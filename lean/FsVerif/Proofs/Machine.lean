/-
Machine automaton: invariants that hold after EVERY activation sequence (every schedule, every
environment): slot bookkeeping (C08), item accounting (C03), counters (C18), blocking ⇒ no
discard (C09), one delay draw per item (C08).
-/
import FsVerif.Model.Node.Machine
import FsVerif.Proofs.Basic
namespace FsVerif
namespace MacState

def activeW (w : Worker) : Bool :=
  match w.pc with
  | .released | .done => false
  | _ => true

def nActive (s : MacState) : Nat := (s.workers.filter activeW).length

/-! ### list lemmas for in-place updates -/

theorem set_split {α} {l : List α} {i : Nat} {w : α} (h : l[i]? = some w) (w' : α) :
    l = l.take i ++ w :: l.drop (i + 1) ∧ l.set i w' = l.take i ++ w' :: l.drop (i + 1) := by
  have hi : i < l.length := by
    by_cases hi : i < l.length
    · exact hi
    · rw [List.getElem?_eq_none (by omega)] at h; simp at h
  have hw : l[i] = w := by
    rw [List.getElem?_eq_getElem hi] at h; simpa using h
  constructor
  · have := List.take_append_drop i l
    rw [List.drop_eq_getElem_cons hi, hw] at this
    exact this.symm
  · rw [List.set_eq_take_append_cons_drop, if_pos hi]

theorem filter_len_set {l : List Worker} {i : Nat} {w : Worker} (h : l[i]? = some w) (w' : Worker) (p : Worker → Bool) :
    ((l.set i w').filter p).length + (if p w then 1 else 0) = (l.filter p).length + (if p w' then 1 else 0) := by
  obtain ⟨h1, h2⟩ := set_split h w'
  rw [h2]
  conv => rhs; rw [h1]
  simp only [List.filter_append, List.filter_cons, List.length_append]
  by_cases hw : p w <;> by_cases hw' : p w' <;> simp [hw, hw'] <;> omega

theorem held_set_same {l : List Worker} {i : Nat} {w w' : Worker} (h : l[i]? = some w)
    (hh : w'.has = w.has) (hi : w'.item = w.item) :
    ((l.set i w').filter (·.has)).map (·.item) = (l.filter (·.has)).map (·.item) := by
  obtain ⟨h1, h2⟩ := set_split h w'
  rw [h2]
  conv => rhs; rw [h1]
  simp only [List.filter_append, List.filter_cons, List.map_append, hh]
  by_cases hw : w.has <;> simp [hw, hi]

theorem held_set_drop {l : List Worker} {i : Nat} {w w' : Worker} (h : l[i]? = some w)
    (hh : w.has = true) (hh' : w'.has = false) :
    ((l.filter (·.has)).map (·.item)).Perm (w.item :: ((l.set i w').filter (·.has)).map (·.item)) := by
  obtain ⟨h1, h2⟩ := set_split h w'
  rw [h2]
  conv => lhs; rw [h1]
  simp only [List.filter_append, List.filter_cons, List.map_append, hh, hh', ite_true, List.map_cons]
  simpa using (List.perm_middle (a := w.item))

/-! ### the invariant -/

/-- which program counters go with holding the item -/
def hasPcOK (w : Worker) : Prop :=
  match w.pc with
  | .start | .timer | .outAny _ | .outTok _ _ | .crashed => w.has = true
  | .released | .done => w.has = false
  | .pushWait _ _ => True

/-- the behaviour process holds a worker slot exactly in these situations -/
def slotPcOK (s : MacState) : Prop :=
  match s.bpc with
  | .start | .setupWait => s.bSlot = false
  | .slotWait => s.bSlot = s.granted
  | .inAny _ | .inTok _ _ => s.bSlot = true
  | .dead => True

structure MPre (s : MacState) : Prop where
  usersEq : s.users = nActive s + s.bSlot.toNat
  usersLe : s.users ≤ s.cfg.wc
  hasPc : ∀ w ∈ s.workers, hasPcOK w
  lenPd : s.pds.length = s.workers.length
  lenPulled : s.pulled.length = s.workers.length
  account : s.pulled.Perm (s.held ++ s.pushedItems ++ s.dropped)
  disc : s.discarded = s.dropped.length
  blk : s.cfg.blocking = true → s.discarded = 0

structure MInv (s : MacState) : Prop extends MPre s where
  slotPc : slotPcOK s

theorem init_minv (cfg : MacCfg) : MInv (init cfg) := by
  refine ⟨⟨?_, ?_, ?_, ?_, ?_, ?_, ?_, ?_⟩, ?_⟩ <;> simp [init, nActive, held, slotPcOK]

theorem hasAct_of {w : Worker} (h : hasPcOK w) (hh : w.has = true) : activeW w = true := by
  unfold hasPcOK at h; unfold activeW
  split at h <;> simp_all

/-- the invariant reads only these fields -/
theorem minv_of_eq {s s' : MacState} (h : MInv s) (e1 : s'.cfg = s.cfg) (e2 : s'.users = s.users) (e3 : s'.bSlot = s.bSlot)
    (e4 : s'.workers = s.workers) (e5 : s'.pds = s.pds) (e6 : s'.pulled = s.pulled) (e7 : s'.pushedItems = s.pushedItems)
    (e8 : s'.dropped = s.dropped) (e9 : s'.discarded = s.discarded) (e10 : s'.granted = s.granted)
    (e11 : s'.bpc = s.bpc) : MInv s' := by
  obtain ⟨⟨a, b, c, d, e, f, g, i⟩, j⟩ := h
  refine ⟨⟨?_, ?_, ?_, ?_, ?_, ?_, ?_, ?_⟩, ?_⟩ <;> simp only [nActive, held, slotPcOK, e1, e2, e3, e4, e5, e6, e7, e8, e9, e10, e11] at * <;> assumption

/-- same, but the behaviour's program counter changes to one with a compatible slot status -/
theorem minv_of_eq' {s s' : MacState} (h : MInv s) (e1 : s'.cfg = s.cfg) (e2 : s'.users = s.users) (e3 : s'.bSlot = s.bSlot)
    (e4 : s'.workers = s.workers) (e5 : s'.pds = s.pds) (e6 : s'.pulled = s.pulled) (e7 : s'.pushedItems = s.pushedItems)
    (e8 : s'.dropped = s.dropped) (e9 : s'.discarded = s.discarded) (hs : slotPcOK s') : MInv s' := by
  obtain ⟨⟨a, b, c, d, e, f, g, i⟩, j⟩ := h
  refine ⟨⟨?_, ?_, ?_, ?_, ?_, ?_, ?_, ?_⟩, hs⟩ <;> simp only [nActive, held, e1, e2, e3, e4, e5, e6, e7, e8, e9] at * <;> assumption

theorem mpre_of_eq {s s' : MacState} (h : MPre s) (e1 : s'.cfg = s.cfg) (e2 : s'.users = s.users) (e3 : s'.bSlot = s.bSlot)
    (e4 : s'.workers = s.workers) (e5 : s'.pds = s.pds) (e6 : s'.pulled = s.pulled) (e7 : s'.pushedItems = s.pushedItems)
    (e8 : s'.dropped = s.dropped) (e9 : s'.discarded = s.discarded) : MPre s' := by
  obtain ⟨a, b, c, d, e, f, g, i⟩ := h
  refine ⟨?_, ?_, ?_, ?_, ?_, ?_, ?_, ?_⟩ <;> simp only [nActive, held, e1, e2, e3, e4, e5, e6, e7, e8, e9] at * <;> assumption

theorem updRep_mpre {s : MacState} (t : Nat) (h : MPre s) : MPre (s.updRep t) := by
  unfold updRep
  split <;> exact mpre_of_eq h rfl rfl rfl rfl rfl rfl rfl rfl rfl

theorem updRep_minv {s : MacState} (t : Nat) (h : MInv s) : MInv (s.updRep t) := by
  unfold updRep
  split <;> exact minv_of_eq h rfl rfl rfl rfl rfl rfl rfl rfl rfl rfl rfl

@[simp] theorem updRep_workers (s : MacState) (t : Nat) : (s.updRep t).workers = s.workers := by
  unfold updRep; split <;> rfl
@[simp] theorem updRep_bSlot (s : MacState) (t : Nat) : (s.updRep t).bSlot = s.bSlot := by
  unfold updRep; split <;> rfl
@[simp] theorem updRep_cfg (s : MacState) (t : Nat) : (s.updRep t).cfg = s.cfg := by
  unfold updRep; split <;> rfl
@[simp] theorem updRep_bpc (s : MacState) (t : Nat) : (s.updRep t).bpc = s.bpc := by
  unfold updRep; split <;> rfl
@[simp] theorem updRep_granted (s : MacState) (t : Nat) : (s.updRep t).granted = s.granted := by
  unfold updRep; split <;> rfl

@[simp] theorem updRep_openToks (s : MacState) (t : Nat) : (s.updRep t).openToks = s.openToks := by
  unfold updRep; split <;> rfl

@[simp] theorem requestSlot_openToks (s : MacState) (t : Nat) : (s.requestSlot t).openToks = s.openToks := by
  unfold requestSlot; simp only; split <;> simp

theorem occAdd_minv {s : MacState} (t : Nat) (h : MInv s) : MInv (s.occAdd t) :=
  minv_of_eq h rfl rfl rfl rfl rfl rfl rfl rfl rfl rfl rfl

theorem occRemove_minv {s : MacState} (t : Nat) (h : MInv s) : MInv (s.occRemove t) :=
  minv_of_eq h rfl rfl rfl rfl rfl rfl rfl rfl rfl rfl rfl

theorem get_set_self {s : MacState} {i : Nat} {w : Worker} (hw : s.workers[i]? = some w) (w' : Worker) :
    (s.setWorker i w').workers[i]? = some w' := by
  have hi : i < s.workers.length := by
    by_cases hi : i < s.workers.length
    · exact hi
    · rw [List.getElem?_eq_none (by omega)] at hw; simp at hw
  simp [setWorker, hi]

/-- a worker changes its program counter / phase, keeps its item and its activity status -/
theorem setWorker_minv {s : MacState} {i : Nat} {w w' : Worker} (h : MInv s) (hw : s.workers[i]? = some w)
    (hh : w'.has = w.has) (hi : w'.item = w.item) (ha : activeW w' = activeW w) (hp : hasPcOK w') :
    MInv (s.setWorker i w') := by
  obtain ⟨⟨a, b, c, d, e, f, g, i'⟩, j⟩ := h
  have hcnt := filter_len_set hw w' activeW
  rw [ha] at hcnt
  refine ⟨⟨?_, ?_, ?_, ?_, ?_, ?_, ?_, ?_⟩, ?_⟩
  · simp only [setWorker, nActive] at *; omega
  · exact b
  · intro x hx
    simp only [setWorker] at hx
    rcases List.mem_or_eq_of_mem_set hx with hx | hx
    · exact c x hx
    · rw [hx]; exact hp
  · simpa [setWorker] using d
  · simpa [setWorker] using e
  · simp only [setWorker, held] at *
    rw [held_set_same hw hh hi]; exact f
  · exact g
  · exact i'
  · exact j

/-- `release` by a worker that has already handed its item on -/
theorem release_minv {s : MacState} {i : Nat} {w0 w : Worker} (h : MInv s) (hw : s.workers[i]? = some w0)
    (hact : activeW w0 = true) (hhas : w0.has = false) (hitem : w.item = w0.item) : MInv (s.release i w) := by
  obtain ⟨⟨a, b, c, d, e, f, g, i'⟩, j⟩ := h
  have hnew : activeW { w with pc := .released, has := false } = false := rfl
  have hcnt := filter_len_set hw { w with pc := .released, has := false } activeW
  rw [hact, hnew] at hcnt
  simp only [ite_true, Bool.false_eq_true, ite_false, Nat.add_zero] at hcnt
  refine ⟨⟨?_, ?_, ?_, ?_, ?_, ?_, ?_, ?_⟩, ?_⟩
  · simp only [release, setWorker, nActive] at *; omega
  · simp only [release, setWorker]; omega
  · intro x hx
    simp only [release, setWorker] at hx
    rcases List.mem_or_eq_of_mem_set hx with hx | hx
    · exact c x hx
    · rw [hx]; simp [hasPcOK]
  · simpa [release, setWorker] using d
  · simpa [release, setWorker] using e
  · simp only [release, setWorker, held] at *
    rw [held_set_same (w' := { w with pc := .released, has := false }) hw (by simp [hhas]) (by simpa using hitem)]; exact f
  · exact g
  · exact i'
  · simpa [release, setWorker, slotPcOK] using j

/-- the item of worker `i` leaves the machine: put downstream (`pushed`) or dropped -/
theorem handover_minv {s : MacState} {i : Nat} {w0 w' : Worker} (h : MInv s) (hw : s.workers[i]? = some w0)
    (hhas : w0.has = true) (hh' : w'.has = false) (ha : activeW w' = activeW w0) (hp : hasPcOK w') (s1 : MacState)
    (e1 : s1.cfg = s.cfg) (e2 : s1.users = s.users) (e3 : s1.bSlot = s.bSlot) (e4 : s1.workers = s.workers.set i w')
    (e5 : s1.pds = s.pds) (e6 : s1.pulled = s.pulled) (e10 : s1.granted = s.granted) (e11 : s1.bpc = s.bpc)
    (hmove : (s1.pushedItems = s.pushedItems ++ [w0.item] ∧ s1.dropped = s.dropped ∧ s1.discarded = s.discarded) ∨
             (s1.pushedItems = s.pushedItems ∧ s1.dropped = s.dropped ++ [w0.item] ∧ s1.discarded = s.discarded + 1 ∧ s.cfg.blocking = false)) :
    MInv s1 := by
  obtain ⟨⟨a, b, c, d, e, f, g, i'⟩, j⟩ := h
  have hcnt := filter_len_set hw w' activeW
  rw [ha] at hcnt
  have hdrop := held_set_drop (w' := w') hw hhas hh'
  refine ⟨⟨?_, ?_, ?_, ?_, ?_, ?_, ?_, ?_⟩, ?_⟩
  · simp only [nActive, e2, e3, e4] at *; omega
  · rw [e1, e2]; exact b
  · intro x hx
    rw [e4] at hx
    rcases List.mem_or_eq_of_mem_set hx with hx | hx
    · exact c x hx
    · rw [hx]; exact hp
  · rw [e4, e5]; simpa using d
  · rw [e4, e6]; simpa using e
  · simp only [held, e4, e6] at *
    rcases hmove with ⟨m1, m2, _⟩ | ⟨m1, m2, _⟩
    · rw [m1, m2]
      refine f.trans ?_
      have : ((s.workers.filter (·.has)).map (·.item) ++ s.pushedItems ++ s.dropped).Perm
          (w0.item :: (((s.workers.set i w').filter (·.has)).map (·.item)) ++ s.pushedItems ++ s.dropped) :=
        List.Perm.append_right _ (List.Perm.append_right _ hdrop)
      refine this.trans ?_
      simp only [List.cons_append, List.append_assoc]
      refine List.Perm.trans ?_ (List.Perm.append_left _ (List.perm_middle (a := w0.item)).symm)
      exact List.perm_middle.symm
    · rw [m1, m2]
      refine f.trans ?_
      have : ((s.workers.filter (·.has)).map (·.item) ++ s.pushedItems ++ s.dropped).Perm
          (w0.item :: (((s.workers.set i w').filter (·.has)).map (·.item)) ++ s.pushedItems ++ s.dropped) :=
        List.Perm.append_right _ (List.Perm.append_right _ hdrop)
      refine this.trans ?_
      simp only [List.cons_append, List.append_assoc]
      refine List.Perm.trans ?_ (List.Perm.append_left _ (List.Perm.append_left _ (List.perm_append_singleton w0.item s.dropped).symm))
      refine List.perm_middle.symm.trans ?_
      exact List.Perm.append_left _ List.perm_middle.symm
  · rcases hmove with ⟨_, m2, m3⟩ | ⟨_, m2, m3, _⟩
    · rw [m3, m2]; exact g
    · rw [m3, m2]; simp; exact g
  · intro hb
    rw [e1] at hb
    rcases hmove with ⟨_, _, m3⟩ | ⟨_, _, _, m4⟩
    · rw [m3]; exact i' hb
    · rw [m4] at hb; simp at hb
  · simpa [slotPcOK, e3, e10, e11] using j


theorem idx_lt {s : MacState} {i : Nat} {w : Worker} (hw : s.workers[i]? = some w) : i < s.workers.length := by
  by_cases hi : i < s.workers.length
  · exact hi
  · rw [List.getElem?_eq_none (by omega)] at hw; simp at hw

/-- the worker's item leaves (put downstream or dropped) and the worker frees its slot -/
theorem finish_minv {s : MacState} {i : Nat} {w0 w : Worker} (h : MInv s) (hw : s.workers[i]? = some w0)
    (hhas : w0.has = true) (hitem : w.item = w0.item) (hwact : activeW w = true) (hpc : match w.pc with | .pushWait _ _ => True | _ => False → False)
    (s1 : MacState)
    (e1 : s1.cfg = s.cfg) (e2 : s1.users = s.users) (e3 : s1.bSlot = s.bSlot) (e4 : s1.workers = s.workers)
    (e5 : s1.pds = s.pds) (e6 : s1.pulled = s.pulled) (e10 : s1.granted = s.granted) (e11 : s1.bpc = s.bpc)
    (hmove : (s1.pushedItems = s.pushedItems ++ [w0.item] ∧ s1.dropped = s.dropped ∧ s1.discarded = s.discarded) ∨
             (s1.pushedItems = s.pushedItems ∧ s1.dropped = s.dropped ++ [w0.item] ∧ s1.discarded = s.discarded + 1 ∧ s.cfg.blocking = false)) :
    MInv (s1.release i w) := by
  -- step 1: hand the item over (the worker waits in a `pushWait`-like limbo), step 2: release
  let wH : Worker := { w with pc := .pushWait 0 false, has := false }
  let sH : MacState := { s1 with workers := s.workers.set i wH }
  have hact0 := hasAct_of (h.hasPc w0 (List.mem_of_getElem? hw)) hhas
  have hH : MInv sH := handover_minv (w' := wH) h hw hhas rfl (by rw [hact0]; rfl) (by simp [hasPcOK, wH]) sH
    e1 e2 e3 rfl e5 e6 e10 e11 hmove
  have hget : sH.workers[i]? = some wH := by
    simp [sH, idx_lt hw]
  have hrel := release_minv (w := w) hH hget rfl rfl (by simp [wH])
  have heq : sH.release i w = s1.release i w := by
    simp only [release, setWorker, sH, e4, List.set_set]
  rw [← heq]; exact hrel

theorem requestSlot_minv {s : MacState} (t : Nat) (h : MPre s) (hb : s.bSlot = false) : MInv (s.requestSlot t) := by
  have h1 := updRep_mpre t h
  have hb1 : (s.updRep t).bSlot = false := by simpa using hb
  unfold requestSlot
  simp only
  obtain ⟨a, b, c, d, e, f, g, i⟩ := h1
  split
  · rename_i hlt
    refine ⟨⟨?_, ?_, c, d, e, f, g, i⟩, ?_⟩
    · simp only [nActive] at *; rw [hb1] at a; simp at a ⊢; omega
    · simp only; omega
    · simp [slotPcOK]
  · refine ⟨⟨?_, b, c, d, e, f, g, i⟩, ?_⟩
    · simp only [nActive] at *; rw [hb1] at a; simpa using a
    · simp [slotPcOK]

theorem grantQueued_minv {s : MacState} (h : MInv s) : MInv s.grantQueued := by
  unfold grantQueued
  split
  · rename_i hc
    obtain ⟨⟨a, b, c, d, e, f, g, i⟩, j⟩ := h
    have hbs : s.bSlot = false := by
      have := j; unfold slotPcOK at this; rw [hc.1] at this
      simp at this; rw [this]; simpa using hc.2.1
    refine ⟨⟨?_, ?_, c, d, e, f, g, i⟩, ?_⟩
    · simp only [nActive] at *; rw [hbs] at a; simp at a ⊢; omega
    · simp only; omega
    · simp [slotPcOK, hc.1]
  · exact h

/-- an item has been pulled: the slot the behaviour process held goes to the new worker -/
theorem afterPull_minv {s : MacState} (t it : Nat) (a : Ans) (pre : List Call) (h : MInv s) (hb : s.bSlot = true) :
    MInv (s.afterPull t it a pre).1 := by
  unfold afterPull
  split
  · rename_i d _ _
    simp only
    apply requestSlot_minv
    · apply updRep_mpre
      obtain ⟨⟨a', b, c, d', e, f, g, i⟩, j⟩ := h
      refine ⟨?_, b, ?_, by simp; omega, by simp; omega, ?_, g, i⟩
      · have hn : activeW { ord := s.nextProc, item := it, delay := d, pulledAt := t } = true := rfl
        simp only [nActive, List.filter_append, List.length_append, List.filter_cons, hn, ite_true, List.filter_nil,
          List.length_cons, List.length_nil] at *
        rw [hb] at a'
        simp at a' ⊢; omega
      · intro w hw
        rcases List.mem_append.mp hw with hw | hw
        · exact c w hw
        · simp at hw; rw [hw]; simp [hasPcOK]
      · simp only [held, List.filter_append, List.map_append] at *
        simp only [List.filter_cons, List.filter_nil, ite_true, List.map_cons, List.map_nil]
        have : (s.pulled ++ [it]).Perm ((List.map (fun x => x.item) (List.filter (fun x => x.has) s.workers) ++ s.pushedItems ++ s.dropped) ++ [it]) :=
          List.Perm.append_right _ f
        refine this.trans ?_
        simp only [List.append_assoc]
        refine List.Perm.append_left _ ?_
        have h2 : (s.pushedItems ++ (s.dropped ++ [it])).Perm (it :: (s.pushedItems ++ s.dropped)) := by
          rw [← List.append_assoc]; exact List.perm_append_singleton it _
        exact h2.trans (by simp)
    · simp
  · refine minv_of_eq' h rfl rfl rfl rfl rfl rfl rfl rfl rfl ?_
    simp [slotPcOK]

theorem crashB_minv {s : MacState} (e : Err) (pre : List Call) (h : MInv s) : MInv (s.crashB e pre).1 :=
  minv_of_eq' h rfl rfl rfl rfl rfl rfl rfl rfl rfl (by simp [crashB, slotPcOK])

theorem flag_minv {s : MacState} (h : MInv s) : MInv { s with flagged := true } :=
  minv_of_eq h rfl rfl rfl rfl rfl rfl rfl rfl rfl rfl rfl

theorem behaviour_minv {s : MacState} (t : Nat) (a : Ans) (h : MInv s) : MInv (s.behaviour t a).1 := by
  unfold behaviour
  split
  · -- start
    have hb : s.bSlot = false := by have := h.slotPc; unfold slotPcOK at this; simp_all
    split
    · exact minv_of_eq' h rfl rfl rfl rfl rfl rfl rfl rfl rfl (by simp [slotPcOK])
    · exact minv_of_eq' h rfl rfl rfl rfl rfl rfl rfl rfl rfl (by simp [slotPcOK, hb])
  · -- setupWait
    have hb : s.bSlot = false := by have := h.slotPc; unfold slotPcOK at this; simp_all
    simp only
    apply requestSlot_minv
    · apply updRep_mpre
      exact mpre_of_eq h.toMPre rfl rfl rfl rfl rfl rfl rfl rfl rfl
    · simpa using hb
  · -- slotWait
    rename_i hpc
    split
    · exact flag_minv h
    · rename_i hg
      have hb : s.bSlot = true := by
        have := h.slotPc; unfold slotPcOK at this; rw [hpc] at this; simp at this hg; rw [this]; exact hg
      split
      · exact crashB_minv _ _ h
      · have h1 := occAdd_minv t h
        split
        · exact minv_of_eq' h1 rfl rfl rfl rfl rfl rfl rfl rfl rfl (by simp [slotPcOK, occAdd, hb])
        · rename_i pol _
          simp only
          split
          · exact minv_of_eq' h1 rfl rfl rfl rfl rfl rfl rfl rfl rfl (by simp [slotPcOK])
          · split
            · exact minv_of_eq' h1 rfl rfl rfl rfl rfl rfl rfl rfl rfl (by simp [slotPcOK, crashB])
            · exact minv_of_eq' h1 rfl rfl rfl rfl rfl rfl rfl rfl rfl (by simp [slotPcOK, occAdd, hb])
  · -- inAny
    rename_i toks hpc
    have hb : s.bSlot = true := by have := h.slotPc; unfold slotPcOK at this; rw [hpc] at this; exact this
    split
    · apply afterPull_minv
      · exact minv_of_eq' h rfl rfl rfl rfl rfl rfl rfl rfl rfl (by simp [slotPcOK, hpc, hb])
      · exact hb
    · exact crashB_minv _ _ h
    · exact flag_minv h
  · -- inTok
    rename_i e tok hpc
    have hb : s.bSlot = true := by have := h.slotPc; unfold slotPcOK at this; rw [hpc] at this; exact this
    split
    · exact flag_minv h
    · split
      · apply afterPull_minv
        · exact minv_of_eq' h rfl rfl rfl rfl rfl rfl rfl rfl rfl (by simp [slotPcOK, hpc, hb])
        · exact hb
      · exact flag_minv h
  · exact flag_minv h


theorem setField_minv {s s' : MacState} (h : MInv s) (e1 : s'.cfg = s.cfg) (e2 : s'.users = s.users) (e3 : s'.bSlot = s.bSlot)
    (e4 : s'.workers = s.workers) (e5 : s'.pds = s.pds) (e6 : s'.pulled = s.pulled) (e7 : s'.pushedItems = s.pushedItems)
    (e8 : s'.dropped = s.dropped) (e9 : s'.discarded = s.discarded) (e10 : s'.granted = s.granted)
    (e11 : s'.bpc = s.bpc) : MInv s' := minv_of_eq h e1 e2 e3 e4 e5 e6 e7 e8 e9 e10 e11

theorem spawnPush_minv {s : MacState} {i : Nat} {w0 w : Worker} (edge : Nat) (fa : Bool) (h : MInv s)
    (hw : s.workers[i]? = some w0) (hh : w.has = w0.has) (hi : w.item = w0.item) (ha : activeW w0 = true) :
    MInv (s.spawnPush i w edge fa).1 := by
  unfold spawnPush
  simp only
  have h1 : MInv { s with pushes := s.pushes ++ [{ ord := s.nextProc, edge := edge, item := w.item }], nextProc := s.nextProc + 1 } :=
    minv_of_eq h rfl rfl rfl rfl rfl rfl rfl rfl rfl rfl rfl
  exact setWorker_minv h1 (by simpa using hw) (by simpa using hh) (by simpa using hi) (by rw [ha]; rfl) (by simp [hasPcOK])

theorem worker_minv {s : MacState} {i : Nat} {w : Worker} (t : Nat) (a : Ans) (h : MInv s)
    (hw : s.workers[i]? = some w) : MInv (s.worker i w t a).1 := by
  have hpcw := h.hasPc w (List.mem_of_getElem? hw)
  unfold worker
  split
  · -- start
    rename_i hpc
    have h1 := updRep_minv t h
    exact setWorker_minv (w := w) (w' := { w with pc := .timer }) h1 (by simpa using hw) rfl rfl (by simp [activeW, hpc])
      (by unfold hasPcOK at *; simp [hpc] at hpcw ⊢; exact hpcw)
  · -- timer
    rename_i hpc
    have hhas : w.has = true := by unfold hasPcOK at hpcw; simp [hpc] at hpcw; exact hpcw
    have hact : activeW w = true := by simp [activeW, hpc]
    have hgetU : ((s.updRep t).setWorker i { w with blocked := true }).workers[i]? = some { w with blocked := true } :=
      get_set_self (w := w) (by simpa using hw) _
    split
    · -- FIRST_AVAILABLE
      split
      · -- blocking: reserve on all out-edges
        have h1 := updRep_minv t h
        have h2 := setWorker_minv (w := w) (w' := { w with blocked := true }) h1 (by simpa using hw) rfl rfl
          (by simp [activeW, hpc]) (by simp [hasPcOK, hpc, hhas])
        have h3 := updRep_minv t h2
        simp only
        refine setWorker_minv (w := { w with blocked := true }) (setField_minv h3 rfl rfl rfl rfl rfl rfl rfl rfl rfl rfl rfl)
          (by simpa using hgetU) rfl rfl (by simp [activeW, hpc]) (by simp [hasPcOK, hhas])
      · -- non-blocking: scan can_put
        rename_i hblk
        simp only
        split
        · rename_i j _
          have h0 : MInv { s with outsel := s.outsel ++ [j] } := setField_minv h rfl rfl rfl rfl rfl rfl rfl rfl rfl rfl rfl
          have h1 := updRep_minv t h0
          have h2 := setWorker_minv (w := w) (w' := { w with blocked := true }) h1 (by simpa using hw) rfl rfl
            (by simp [activeW, hpc]) (by simp [hasPcOK, hpc, hhas])
          have h3 := updRep_minv t h2
          have hgetJ : ((({ s with outsel := s.outsel ++ [j] } : MacState).updRep t).setWorker i { w with blocked := true }).workers[i]? =
              some { w with blocked := true } := get_set_self (w := w) (by simpa using hw) _
          exact spawnPush_minv (w0 := { w with blocked := true }) j true h3 (by simpa using hgetJ) rfl rfl (by simp [activeW, hpc])
        · exact finish_minv (w0 := w) (w := w) h hw hhas rfl hact (by simp [hpc]) _
            rfl rfl rfl rfl rfl rfl rfl rfl (Or.inr ⟨rfl, rfl, rfl, by simpa using hblk⟩)
    · -- index policies
      simp only
      split
      · exact flag_minv h
      · rename_i k _
        split
        · exact setWorker_minv (w := w) (setField_minv h rfl rfl rfl rfl rfl rfl rfl rfl rfl rfl rfl) (by simpa using hw) rfl rfl
            (by simp [activeW, hpc]) (by simp [hasPcOK, hhas])
        · have h0 : MInv { s with rrOut := (selIdx s.cfg.outPol s.rrOut s.cfg.nout a).2.1, outsel := s.outsel ++ [k.toNat] } :=
            setField_minv h rfl rfl rfl rfl rfl rfl rfl rfl rfl rfl rfl
          have h2 := setWorker_minv (w := w) (w' := { w with blocked := true }) h0 (by simpa using hw) rfl rfl
            (by simp [activeW, hpc]) (by simp [hasPcOK, hpc, hhas])
          have h3 := updRep_minv t h2
          have hget : (({ s with rrOut := (selIdx s.cfg.outPol s.rrOut s.cfg.nout a).2.1, outsel := s.outsel ++ [k.toNat] } : MacState).setWorker i
              { w with blocked := true }).workers[i]? = some { w with blocked := true } :=
            get_set_self (w := w) (by simpa using hw) _
          split
          · exact setWorker_minv (w := { w with blocked := true }) (setField_minv h3 rfl rfl rfl rfl rfl rfl rfl rfl rfl rfl rfl)
              (by simpa using hget) rfl rfl (by simp [activeW, hpc]) (by simp [hasPcOK, hhas])
          · rename_i hblk
            split
            · exact spawnPush_minv (w0 := { w with blocked := true }) _ false h3 (by simpa using hget) rfl rfl (by simp [activeW, hpc])
            · exact finish_minv (w0 := { w with blocked := true }) (w := { w with blocked := true }) h3
                (by simpa using hget) (by simpa using hhas) rfl (by simp [activeW, hpc]) (by simp [hpc]) _
                rfl rfl rfl rfl rfl rfl rfl rfl (Or.inr ⟨rfl, rfl, rfl, by simp [setWorker]; simpa using hblk⟩)
            · exact flag_minv h
  · -- outAny
    rename_i toks hpc
    have hhas : w.has = true := by unfold hasPcOK at hpcw; simp [hpc] at hpcw; exact hpcw
    split
    · rename_i idx _
      simp only
      exact finish_minv (w0 := w) (w := w) h hw hhas rfl (by simp [activeW, hpc]) (by simp [hpc]) _
        (by simp) (by unfold updRep; split <;> rfl) (by simp) (by simp) (by unfold updRep; split <;> rfl)
        (by unfold updRep; split <;> rfl) (by simp) (by simp)
        (Or.inl ⟨by unfold updRep; split <;> rfl, by unfold updRep; split <;> rfl, by unfold updRep; split <;> rfl⟩)
    · exact setWorker_minv (w := w) h hw rfl rfl (by simp [activeW, hpc]) (by simp [hasPcOK, hhas])
  · -- outTok
    rename_i e tok hpc
    have hhas : w.has = true := by unfold hasPcOK at hpcw; simp [hpc] at hpcw; exact hpcw
    split
    · exact flag_minv h
    · simp only
      exact finish_minv (w0 := w) (w := w) h hw hhas rfl (by simp [activeW, hpc]) (by simp [hpc]) _
        rfl rfl rfl rfl rfl rfl rfl rfl (Or.inl ⟨rfl, rfl, rfl⟩)
  · -- pushWait
    rename_i sub fa hpc
    split
    · split
      · exact flag_minv h
      · rename_i hcond
        have hhas : w.has = false := by simp at hcond; exact hcond.2
        have h1 : MInv { s with processed := s.processed + 1 } := setField_minv h rfl rfl rfl rfl rfl rfl rfl rfl rfl rfl rfl
        simp only
        split
        · exact release_minv (w0 := w) (updRep_minv t h1) (by simpa using hw) (by simp [activeW, hpc]) hhas rfl
        · exact release_minv (w0 := w) h1 (by simpa using hw) (by simp [activeW, hpc]) hhas rfl
    · exact flag_minv h
  · -- released
    rename_i hpc
    have hhas : w.has = false := by unfold hasPcOK at hpcw; simp [hpc] at hpcw; exact hpcw
    have h0 := grantQueued_minv h
    have hw0 : s.grantQueued.workers[i]? = some w := by unfold grantQueued; split <;> simpa using hw
    have h1 := setWorker_minv (w := w) (w' := { w with pc := .done, inList := false }) h0 hw0 rfl rfl (by simp [activeW, hpc]) (by simp [hasPcOK, hhas])
    simp only
    split
    · exact h1
    · exact updRep_minv t (occRemove_minv t h1)
  · exact flag_minv h
  · exact flag_minv h


theorem pushStep_minv {s : MacState} (p : MPush) (a : Ans) (h : MInv s) : MInv (s.pushStep p a).1 := by
  unfold pushStep
  split
  · exact setField_minv h rfl rfl rfl rfl rfl rfl rfl rfl rfl rfl rfl
  · rename_i tok _
    split
    · exact flag_minv h
    · split
      · exact flag_minv h
      · rename_i i hfi
        split
        · exact flag_minv h
        · rename_i w hwi
          -- the worker found waits on this sub-process and still holds the item
          have hprop := List.findIdx?_eq_some_iff_getElem.mp hfi
          obtain ⟨hi, hp, _⟩ := hprop
          have hwe : s.workers[i] = w := by rw [List.getElem?_eq_getElem hi] at hwi; simpa using hwi
          rw [hwe] at hp
          have hhas : w.has = true := by
            split at hp <;> simp_all
          have hpw : ∃ sub fa, w.pc = .pushWait sub fa := by
            split at hp
            · rename_i sub fa hpc; exact ⟨sub, fa, hpc⟩
            · simp at hp
          obtain ⟨sub, fa, hpc⟩ := hpw
          exact handover_minv (w0 := w) (w' := { w with has := false }) h hwi hhas rfl (by simp [activeW, hpc])
            (by simp [hasPcOK, hpc]) _ rfl rfl rfl rfl rfl rfl rfl rfl (Or.inl ⟨rfl, rfl, rfl⟩)

theorem step_minv {s : MacState} (proc t : Nat) (a : Ans) (h : MInv s) : MInv (s.step proc t a).1 := by
  unfold step
  split
  · exact flag_minv h
  · have h' : MInv { s with now := t } := setField_minv h rfl rfl rfl rfl rfl rfl rfl rfl rfl rfl rfl
    simp only
    split
    · exact behaviour_minv t a h'
    · split
      · rename_i i _
        split
        · rename_i w hw
          exact worker_minv t a h' (by simpa using hw)
        · exact flag_minv h'
      · split
        · exact pushStep_minv _ a h'
        · exact flag_minv h'

/-- an activation: which process, at what time, with which answers -/
structure Act where
  proc : Nat
  t : Nat
  ans : Ans

def runActs (s : MacState) (acts : List Act) : MacState := acts.foldl (fun s a => (s.step a.proc a.t a.ans).1) s

theorem runActs_minv (acts : List Act) {s : MacState} (h : MInv s) : MInv (runActs s acts) := by
  induction acts generalizing s with
  | nil => exact h
  | cons a as ih => exact ih (step_minv a.proc a.t a.ans h)

/-- every state the machine can be in, under every schedule and every environment -/
theorem reach_minv (cfg : MacCfg) (acts : List Act) : MInv (runActs (init cfg) acts) :=
  runActs_minv acts (init_minv cfg)

theorem filter_le_of_imp (l : List Worker) (p q : Worker → Bool) (h : ∀ w ∈ l, p w = true → q w = true) :
    (l.filter p).length ≤ (l.filter q).length := by
  induction l with
  | nil => simp
  | cons x xs ih =>
    have ih' := ih (fun w hw => h w (List.mem_cons_of_mem _ hw))
    simp only [List.filter_cons]
    by_cases hx : p x = true
    · have := h x (List.mem_cons_self) hx
      simp [hx, this]; omega
    · simp only [hx, Bool.false_eq_true, ite_false]
      by_cases hq : q x = true
      · simp [hq]; omega
      · simp [hq]; exact ih'

/-- C08: never more items held than `work_capacity` -/
theorem held_le_wc {s : MacState} (h : MInv s) : s.held.length ≤ s.cfg.wc := by
  have h1 : s.held.length ≤ nActive s := by
    unfold held nActive
    rw [List.length_map]
    exact filter_le_of_imp _ _ _ (fun w hw hh => hasAct_of (h.hasPc w hw) hh)
  have := h.usersEq; have := h.usersLe
  omega

end MacState
end FsVerif
