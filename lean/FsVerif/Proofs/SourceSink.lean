/-
Source and Sink automata: accounting and counters, for every activation sequence.
-/
import FsVerif.Model.Node.Source
import FsVerif.Proofs.Basic
namespace FsVerif
namespace SrcState

structure SPre (s : SrcState) : Prop where
  gen : s.generated = s.created.length
  account : s.created.Perm (s.hand ++ s.pushed ++ s.dropped)
  disc : s.discarded = s.dropped.length
  blk : s.cfg.blocking = true → s.discarded = 0
  hand1 : s.hand.length ≤ 1

def handPcOK (s : SrcState) : Prop := (s.pc = .start ∨ s.pc = .setupWait ∨ s.pc = .iatWait) → s.hand = []

structure SInv (s : SrcState) : Prop extends SPre s where
  handPc : handPcOK s

theorem init_sinv (cfg : SrcCfg) : SInv (init cfg) := by
  refine ⟨⟨?_, ?_, ?_, ?_, ?_⟩, ?_⟩ <;> simp [init, handPcOK]

theorem spre_of_eq {s s' : SrcState} (h : SPre s) (e1 : s'.cfg = s.cfg) (e2 : s'.generated = s.generated)
    (e3 : s'.created = s.created) (e4 : s'.hand = s.hand) (e5 : s'.pushed = s.pushed) (e6 : s'.dropped = s.dropped)
    (e7 : s'.discarded = s.discarded) : SPre s' := by
  obtain ⟨a, b, c, d, e⟩ := h
  constructor <;> simp only [e1, e2, e3, e4, e5, e6, e7] <;> assumption

theorem loopTop_sinv {s : SrcState} (t : Nat) (a : Ans) (h : SPre s) (hh : s.hand = []) : SInv (s.loopTop t a).1 := by
  unfold loopTop
  simp only
  split
  · exact ⟨spre_of_eq h rfl rfl rfl rfl rfl rfl rfl, fun _ => by simpa using hh⟩
  · exact ⟨spre_of_eq h rfl rfl rfl rfl rfl rfl rfl, fun hx => by simp at hx⟩

theorem crash_sinv {s : SrcState} (e : Err) (pre : List Call) (h : SPre s) : SInv (s.crash e pre).1 :=
  ⟨spre_of_eq h rfl rfl rfl rfl rfl rfl rfl, fun hx => by simp [crash] at hx⟩

theorem spawnPush_sinv {s : SrcState} (edge item : Nat) (g : Bool) (h : SPre s) : SInv (s.spawnPush edge item g).1 :=
  ⟨spre_of_eq h rfl rfl rfl rfl rfl rfl rfl, fun hx => by simp [spawnPush] at hx⟩

theorem flag_sinv {s : SrcState} (h : SInv s) : SInv { s with flagged := true } :=
  ⟨spre_of_eq h.toSPre rfl rfl rfl rfl rfl rfl rfl, h.handPc⟩

/-- a fresh item is created while nothing is in hand -/
theorem create_spre {s : SrcState} (it : Nat) (h : SPre s) (hh : s.hand = []) :
    SPre { s with i := s.i + 1, generated := s.generated + 1, item := some it, created := s.created ++ [it], hand := [it] } := by
  obtain ⟨a, b, c, d, e⟩ := h
  refine ⟨by simp [a], ?_, c, d, by simp⟩
  simp only
  rw [hh] at b
  have : (s.created ++ [it]).Perm (it :: s.created) := List.perm_append_singleton it s.created
  refine this.trans ?_
  simpa using List.Perm.cons it b

/-- the item in hand is dropped and counted (non-blocking only) -/
theorem drop_spre {s : SrcState} {it : Nat} (h : SPre s) (hh : s.hand = [it]) (hb : s.cfg.blocking = false) :
    SPre { s with discarded := s.discarded + 1, dropped := s.dropped ++ [it], hand := [] } := by
  obtain ⟨a, b, c, d, e⟩ := h
  refine ⟨a, ?_, by simp [c], by intro hx; simp only at hx; rw [hb] at hx; simp at hx, by simp⟩
  simp only
  rw [hh] at b
  refine b.trans ?_
  simp only [List.nil_append, List.cons_append]
  have : (it :: (s.pushed ++ s.dropped)).Perm ((s.pushed ++ s.dropped) ++ [it]) := (List.perm_append_singleton it _).symm
  simpa using this

/-- the item in hand is put on an out-edge -/
theorem put_spre {s : SrcState} {it : Nat} {rest : List Nat} (h : SPre s) (hh : s.hand = it :: rest) :
    SPre { s with pushed := s.pushed ++ [it], hand := [] } := by
  obtain ⟨a, b, c, d, e⟩ := h
  have hr : rest = [] := by rw [hh] at e; simp at e; exact e
  subst hr
  refine ⟨a, ?_, c, d, by simp⟩
  simp only
  rw [hh] at b
  refine b.trans ?_
  simp only [List.nil_append, List.cons_append]
  have : (it :: (s.pushed ++ s.dropped)).Perm (s.pushed ++ it :: s.dropped) := List.perm_middle.symm
  simpa using this

theorem behaviour_sinv {s : SrcState} (t : Nat) (a : Ans) (h : SInv s) : SInv (s.behaviour t a).1 := by
  unfold behaviour
  split
  · -- start
    rename_i hpc
    have hh := h.handPc (Or.inl hpc)
    split
    · split
      · exact crash_sinv _ _ h.toSPre
      · exact ⟨spre_of_eq h.toSPre rfl rfl rfl rfl rfl rfl rfl, fun _ => by simpa using hh⟩
    · exact ⟨spre_of_eq h.toSPre rfl rfl rfl rfl rfl rfl rfl, fun _ => by simpa using hh⟩
  · -- setupWait
    rename_i hpc
    have hh := h.handPc (Or.inr (Or.inl hpc))
    exact loopTop_sinv t a (spre_of_eq h.toSPre rfl rfl rfl rfl rfl rfl rfl) (by simpa using hh)
  · -- iatWait: a new item
    rename_i hpc
    have hh := h.handPc (Or.inr (Or.inr hpc))
    have h1 := create_spre (s.itemName (s.i + 1)) h.toSPre hh
    simp only
    split
    · -- FIRST_AVAILABLE
      split
      · exact ⟨spre_of_eq h1 rfl rfl rfl rfl rfl rfl rfl, fun hx => by simp at hx⟩
      · rename_i hblk
        split
        · -- nowhere to go: drop
          have h2 := drop_spre h1 rfl (by simpa using hblk)
          have := loopTop_sinv t { a with cans := [] } h2 rfl
          exact ⟨spre_of_eq this.toSPre rfl rfl rfl rfl rfl rfl rfl, this.handPc⟩
        · exact spawnPush_sinv _ _ _ (spre_of_eq h1 rfl rfl rfl rfl rfl rfl rfl)
    · -- index policies
      split
      · exact ⟨spre_of_eq h1 rfl rfl rfl rfl rfl rfl rfl, fun hx => by simp at hx⟩
      · have h2 : SPre { s with i := s.i + 1, generated := s.generated + 1, item := some (s.itemName (s.i + 1)), created := s.created ++ [s.itemName (s.i + 1)], hand := [s.itemName (s.i + 1)], rr := (selIdx s.cfg.pol s.rr s.cfg.nout a).2.1 } := spre_of_eq h1 rfl rfl rfl rfl rfl rfl rfl
        split
        · exact crash_sinv _ _ h2
        · split
          · exact spawnPush_sinv _ _ _ (spre_of_eq h2 rfl rfl rfl rfl rfl rfl rfl)
          · rename_i hblk
            split
            · exact spawnPush_sinv _ _ _ h2
            · have h3 := drop_spre h2 rfl (by simpa using hblk)
              have := loopTop_sinv t { a with cans := [] } h3 rfl
              exact ⟨spre_of_eq this.toSPre rfl rfl rfl rfl rfl rfl rfl, this.handPc⟩
            · exact ⟨spre_of_eq h2 rfl rfl rfl rfl rfl rfl rfl, fun hx => by simp at hx⟩
  · -- faWait
    rename_i toks hpcfa
    split
    · rename_i it rest hfirst hhand
      have h2 := put_spre h.toSPre hhand
      have h3 : SPre { s with clock := s.clock.update 1 t, pushed := s.pushed ++ [it], hand := [], openToks := s.openToks.filter (fun x => !toks.contains x) } := spre_of_eq h2 rfl rfl rfl rfl rfl rfl rfl
      have := loopTop_sinv t a h3 rfl
      exact ⟨spre_of_eq this.toSPre rfl rfl rfl rfl rfl rfl rfl, this.handPc⟩
    · exact crash_sinv _ _ h.toSPre
  · -- pushWait
    split
    · split
      · rename_i hc
        have hh : s.hand = [] := by simp at hc; exact hc.2
        split
        · exact loopTop_sinv t a (spre_of_eq h.toSPre rfl rfl rfl rfl rfl rfl rfl) (by simpa using hh)
        · exact loopTop_sinv t a h.toSPre hh
      · exact flag_sinv h
    · exact flag_sinv h
  · exact flag_sinv h


theorem pushStep_sinv {s : SrcState} (p : PushProc) (a : Ans) (h : SInv s) : SInv (s.pushStep p a).1 := by
  unfold pushStep
  split
  · exact ⟨spre_of_eq h.toSPre rfl rfl rfl rfl rfl rfl rfl, h.handPc⟩
  · split
    · exact flag_sinv h
    · split
      · exact flag_sinv h
      · rename_i it rest hhand
        have h2 := put_spre h.toSPre hhand
        refine ⟨spre_of_eq h2 rfl rfl rfl rfl rfl rfl rfl, fun _ => rfl⟩

theorem step_sinv {s : SrcState} (proc t : Nat) (a : Ans) (h : SInv s) : SInv (s.step proc t a).1 := by
  unfold step
  split
  · exact flag_sinv h
  · have h' : SInv { s with now := t, tStart := match s.tStart with | some x => some x | none => some t } :=
      ⟨spre_of_eq h.toSPre rfl rfl rfl rfl rfl rfl rfl, h.handPc⟩
    simp only
    split
    · exact behaviour_sinv t a h'
    · split
      · exact pushStep_sinv _ a h'
      · exact flag_sinv h'

structure Act where
  proc : Nat
  t : Nat
  ans : Ans

def runActs (s : SrcState) (acts : List Act) : SrcState := acts.foldl (fun s a => (s.step a.proc a.t a.ans).1) s

theorem reach_sinv (cfg : SrcCfg) (acts : List Act) : SInv (runActs (init cfg) acts) := by
  have hgen : ∀ (acts : List Act) (s : SrcState), SInv s → SInv (runActs s acts) := by
    intro acts
    induction acts with
    | nil => intro s h; exact h
    | cons a as ih => intro s h; exact ih _ (step_sinv a.proc a.t a.ans h)
  exact hgen acts _ (init_sinv cfg)

end SrcState

namespace SinkState

/-- counters of the sink: number received, cycle-time sum -/
structure KInv (s : SinkState) : Prop where
  recv : s.received = s.got.length
  len : s.gotAt.length = s.got.length
  cyc : s.cycle = (s.gotAt.map (fun p => p.1 - p.2)).sum

theorem init_kinv (n : Nat) : KInv (init n) := by constructor <;> simp [init]

theorem step_kinv {s : SinkState} (proc t : Nat) (a : Ans) (h : KInv s) : KInv (s.step proc t a).1 := by
  obtain ⟨h1, h2, h3⟩ := h
  unfold step
  split
  · exact ⟨h1, h2, h3⟩
  · simp only
    split
    · exact ⟨h1, h2, h3⟩
    · split
      · unfold arm; exact ⟨h1, h2, h3⟩
      · split
        · rename_i it _ _ _
          unfold arm
          refine ⟨by simp [h1], by simp [h2], ?_⟩
          simp [h3]
        · exact ⟨h1, h2, h3⟩
        · exact ⟨h1, h2, h3⟩

structure Act where
  proc : Nat
  t : Nat
  ans : Ans

def runActs (s : SinkState) (acts : List Act) : SinkState := acts.foldl (fun s a => (s.step a.proc a.t a.ans).1) s

theorem reach_kinv (n : Nat) (acts : List Act) : KInv (runActs (init n) acts) := by
  have hgen : ∀ (acts : List Act) (s : SinkState), KInv s → KInv (runActs s acts) := by
    intro acts
    induction acts with
    | nil => intro s h; exact h
    | cons a as ih => intro s h; exact ih _ (step_kinv a.proc a.t a.ans h)
  exact hgen acts _ (init_kinv n)

end SinkState
end FsVerif
