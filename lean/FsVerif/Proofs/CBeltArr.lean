/-
Continuous-conveyor model: the arrival log is in time order.  Every function of the model either leaves `arrivals` alone
or appends records stamped with the current instant (`ArrExt`); the clock never goes back (CBeltClock); hence the log is
sorted by arrival time in every reachable state (`run_arrSorted`).  Together with the exact travel accounting (TI) and the
spacing of entries (SP) this gives: as long as nothing was stopped, items are offered at the exit in the order in which
they entered (Props/C12.cbelt_order_when_never_stalled).
-/
import FsVerif.Proofs.CBeltClock
import FsVerif.Proofs.CBeltSpace3
namespace FsVerif
namespace CBelt

/-- same instant; `arrivals` grew by records stamped with this instant (possibly none) -/
def ArrExt (s s' : CBelt) : Prop := s'.now = s.now ∧ ∃ l, s'.arrivals = s.arrivals ++ l ∧ ∀ a ∈ l, a.t = s.now

theorem ArrExt.refl (s : CBelt) : ArrExt s s := ⟨rfl, [], by simp, by simp⟩

theorem ArrExt.of_eq {s s' : CBelt} (h1 : s'.now = s.now) (h2 : s'.arrivals = s.arrivals) : ArrExt s s' :=
  ⟨h1, [], by simp [h2], by simp⟩

theorem ArrExt.trans {s s' s'' : CBelt} (h1 : ArrExt s s') (h2 : ArrExt s' s'') : ArrExt s s'' := by
  obtain ⟨n1, l1, e1, t1⟩ := h1
  obtain ⟨n2, l2, e2, t2⟩ := h2
  refine ⟨n2.trans n1, l1 ++ l2, by rw [e2, e1, List.append_assoc], ?_⟩
  intro a ha
  rcases List.mem_append.mp ha with h | h
  · exact t1 a h
  · rw [← n1]; exact t2 a h

theorem ArrExt.frS {s s' : CBelt} (f : FrS s s') : ArrExt s s' := ArrExt.of_eq f.now f.arrivals
theorem ArrExt.fr {s s' : CBelt} (f : Fr s s') : ArrExt s s' := ArrExt.of_eq f.now f.arrivals

theorem arr_trigPut (s : CBelt) : s.trigPut.arrivals = s.arrivals := (FrS.trigPut s).arrivals
theorem arr_trigGet (s : CBelt) : s.trigGet.arrivals = s.arrivals := (FrS.trigGet s).arrivals

theorem ArrExt.arrive (s : CBelt) (p : MProc) : ArrExt s (s.arrive p) := by
  refine ⟨now_arrive s p, ?_⟩
  unfold CBelt.arrive
  split
  · exact ⟨[], by simp; rfl, by simp⟩
  · rename_i e _
    simp only
    split
    · split
      · refine ⟨[({ q := p.q, t := s.now, ti := e.totalInt } : Arr)], ?_, by simp⟩
        show (CBelt.trigPut _).arrivals = _
        rw [arr_trigPut, arr_trigGet]; rfl
      · refine ⟨[({ q := p.q, t := s.now, ti := e.totalInt } : Arr)], ?_, by simp⟩
        show (CBelt.trigPut _).arrivals = _
        rw [arr_trigPut, arr_trigGet]
    · exact ⟨[({ q := p.q, t := s.now, ti := e.totalInt } : Arr)], rfl, by simp⟩

theorem ArrExt.startPhase (s : CBelt) (p : MProc) (ph rem : Nat) : ArrExt s (s.startPhase p ph rem) := by
  unfold CBelt.startPhase
  split
  · exact ArrExt.of_eq rfl rfl
  · split
    · simp only
      split
      · exact ArrExt.of_eq rfl rfl
      · exact ArrExt.arrive s p
    · exact ArrExt.arrive s p

theorem ArrExt.initM (s : CBelt) (q : Nat) : ArrExt s (s.initM q) := by
  unfold CBelt.initM
  split
  · exact ArrExt.of_eq rfl rfl
  · refine ArrExt.trans ?_ (ArrExt.startPhase _ _ _ _); exact ArrExt.of_eq rfl rfl

theorem ArrExt.onTimeout (s : CBelt) (u : Nat) : ArrExt s (s.onTimeout u) := by
  unfold CBelt.onTimeout
  split
  · split
    · refine ArrExt.trans ?_ (ArrExt.startPhase _ _ _ _); exact ArrExt.of_eq rfl rfl
    · exact ArrExt.startPhase _ _ _ _
  · split
    · simp only
      refine ArrExt.of_eq ?_ ?_
      · show (CBelt.interruptItem _ _).now = s.now
        rw [(Fr.interruptItem _ _).now]
      · show (CBelt.interruptItem _ _).arrivals = s.arrivals
        rw [(Fr.interruptItem _ _).arrivals]
    · exact ArrExt.refl s

theorem ArrExt.onInterrupt (s : CBelt) (r : PRef) : ArrExt s (s.onInterrupt r) := by
  unfold CBelt.onInterrupt
  cases r with
  | delayed d =>
    simp only
    split
    · exact ArrExt.refl s
    · split <;> exact ArrExt.of_eq rfl rfl
  | move q =>
    simp only
    split
    · exact ArrExt.refl s
    · split <;> exact ArrExt.of_eq rfl rfl

theorem ArrExt.resumeOne (g : Nat) (s : CBelt) (q : Nat) : ArrExt s (resumeOne g s q) := by
  unfold CBelt.resumeOne
  split
  · exact ArrExt.refl s
  · split
    · split
      · simp only
        refine ArrExt.trans ?_ (ArrExt.startPhase _ _ _ _); exact ArrExt.of_eq rfl rfl
      · exact ArrExt.refl s
    · exact ArrExt.refl s

theorem ArrExt.onResume (s : CBelt) (g : Nat) : ArrExt s (s.onResume g) := by
  rw [onResume_eq]
  generalize s.waitOrder = l
  induction l generalizing s with
  | nil => exact ArrExt.refl s
  | cons q qs ih => simp only [List.foldl_cons]; exact (ArrExt.resumeOne g s q).trans (ih _)

theorem ArrExt.handle (s : CBelt) (k : CKind) : ArrExt s (s.handle k) := by
  unfold CBelt.handle
  cases k with
  | initM q => exact ArrExt.initM s q
  | initD d =>
    simp only
    split <;> exact ArrExt.of_eq rfl rfl
  | tmo u => exact ArrExt.onTimeout s u
  | shot w g => exact ArrExt.fr (Fr.onShot s w g)
  | re g => exact ArrExt.onResume s g
  | p1e => exact ArrExt.frS (FrS.trigPut s)
  | cond u =>
    simp only
    split
    · split
      · exact ArrExt.fr (Fr.bWake s)
      · exact ArrExt.of_eq rfl rfl
    · exact ArrExt.refl s
  | intr r => exact ArrExt.onInterrupt s r

/-- the arrival log is in time order and nothing in it lies in the future -/
structure AS (s : CBelt) : Prop where
  sorted : s.arrivals.Pairwise (fun a b => a.t ≤ b.t)
  le : ∀ a ∈ s.arrivals, a.t ≤ s.now

theorem init_as (cfg : CCfg) : AS (init cfg) := by
  constructor <;> simp [init]

theorem AS.ext {s s' : CBelt} (h : AS s) (e : ArrExt s s') : AS s' := by
  obtain ⟨hn, l, hl, ht⟩ := e
  constructor
  · rw [hl, List.pairwise_append]
    refine ⟨h.sorted, ?_, ?_⟩
    · rw [List.pairwise_iff_forall_sublist]
      intro a b hab
      have ha := ht a (hab.subset (by simp))
      have hb := ht b (hab.subset (by simp))
      omega
    · intro a ha b hb
      have := h.le a ha
      have := ht b hb
      omega
  · intro a ha
    rw [hl] at ha
    rcases List.mem_append.mp ha with h1 | h1
    · rw [hn]; exact h.le a h1
    · rw [hn, ht a h1]; exact Nat.le_refl _

theorem AS.later {s s' : CBelt} (h : AS s) (e1 : s'.arrivals = s.arrivals) (e2 : s.now ≤ s'.now) : AS s' := by
  constructor
  · rw [e1]; exact h.sorted
  · intro a ha; rw [e1] at ha; exact Nat.le_trans (h.le a ha) e2

theorem arr_put (s : CBelt) (p tid : Nat) (x : Item) : (s.put p tid x).1.arrivals = s.arrivals := by
  unfold CBelt.put
  split
  · rfl
  · split
    · rfl
    · simp only
      split
      · split
        · split
          · split
            · rw [(Fr.handleNew _ _).arrivals, arr_trigGet]; rfl
            · rw [arr_trigGet]; rfl
          · split
            · rw [(Fr.handleNew _ _).arrivals]; show (CBelt.trigGet _).arrivals = s.arrivals; rw [arr_trigGet]; rfl
            · show (CBelt.trigGet _).arrivals = s.arrivals; rw [arr_trigGet]; rfl
        · split
          · split
            · rw [(Fr.handleNew _ _).arrivals, arr_trigGet]; rfl
            · rw [arr_trigGet]; rfl
          · split
            · rw [(Fr.handleNew _ _).arrivals]; show (CBelt.trigGet _).arrivals = s.arrivals; rw [arr_trigGet]; rfl
            · show (CBelt.trigGet _).arrivals = s.arrivals; rw [arr_trigGet]; rfl
      · rfl

theorem arr_get (s : CBelt) (p tid : Nat) : (s.get p tid).1.arrivals = s.arrivals := by
  unfold CBelt.get
  split
  · rfl
  · split
    · rfl
    · split
      · rfl
      · split
        · rfl
        · simp only
          split
          · split
            · show (CBelt.trigPut _).arrivals = s.arrivals; rw [arr_trigPut]; rfl
            · show (CBelt.trigPut _).arrivals = s.arrivals; rw [arr_trigPut]; rfl
          · rfl

theorem arr_cancelPut (s : CBelt) (tid : Nat) : (s.cancelPut tid).1.arrivals = s.arrivals := by
  unfold CBelt.cancelPut
  split
  · show (CBelt.trigPut _).arrivals = s.arrivals; rw [arr_trigPut]
  · split
    · show (CBelt.trigPut _).arrivals = s.arrivals; rw [arr_trigPut]
    · rfl

theorem arr_cancelGet (s : CBelt) (tid : Nat) : (s.cancelGet tid).1.arrivals = s.arrivals := by
  unfold CBelt.cancelGet
  split
  · show (CBelt.trigGet _).arrivals = s.arrivals; rw [arr_trigGet]
  · split
    · split
      · rfl
      · split
        · rfl
        · simp only
          split
          · show (CBelt.trigGet _).arrivals = s.arrivals; rw [arr_trigGet]
          · rfl
    · rfl

theorem AS.step {s : CBelt} (h : AS s) (op : Op) : AS (s.step op).1 := by
  unfold CBelt.step
  cases op with
  | reservePut p =>
    refine h.later ?_ ?_
    · show (CBelt.trigPut _).arrivals = s.arrivals; rw [arr_trigPut]
    · show s.now ≤ (CBelt.trigPut _).now; rw [now_trigPut]; exact Nat.le_refl _
  | reserveGet p =>
    refine h.later ?_ ?_
    · show (CBelt.trigGet _).arrivals = s.arrivals; rw [arr_trigGet]
    · show s.now ≤ (CBelt.trigGet _).now; rw [now_trigGet]; exact Nat.le_refl _
  | put p t x => simp only; exact h.later (by rw [arr_put]) (by rw [now_put]; exact Nat.le_refl _)
  | get p t => simp only; exact h.later (by rw [arr_get]) (by rw [now_get]; exact Nat.le_refl _)
  | cancelPut t => simp only; exact h.later (by rw [arr_cancelPut]) (by rw [now_cancelPut]; exact Nat.le_refl _)
  | cancelGet t => simp only; exact h.later (by rw [arr_cancelGet]) (by rw [now_cancelGet]; exact Nat.le_refl _)
  | adv dt =>
    simp only [CBelt.adv]
    split
    · split
      · exact h.later rfl (Nat.le_refl _)
      · exact h.later rfl (Nat.le_add_right _ _)
    · exact h.later rfl (Nat.le_add_right _ _)
  | ev =>
    simp only [CBelt.ev]
    split
    · exact h.later rfl (Nat.le_refl _)
    · refine AS.ext ?_ (ArrExt.handle _ _)
      exact h.later rfl (Nat.le_max_left _ _)
  | final => exact h.later rfl (Nat.le_refl _)

theorem run_as : ∀ (ops : List Op) (s : CBelt), AS s → AS (s.run ops) := by
  intro ops
  induction ops with
  | nil => intro s h; exact h
  | cons op ops ih => intro s h; exact ih _ (h.step op)

end CBelt
end FsVerif
