/-
Continuous-conveyor model: the travel-time invariant is preserved by every step of a move process
(start of a phase, interrupt, resume, arrival, end) and by taking an event off the queue.
-/
import FsVerif.Proofs.CBeltTime
namespace FsVerif
namespace CBelt

theorem procs_unique {l : List MProc} (h : l.Pairwise (fun a b => a.q ≠ b.q)) {a b : MProc}
    (ha : a ∈ l) (hb : b ∈ l) (hq : a.q = b.q) : a = b := by
  induction l with
  | nil => cases ha
  | cons x xs ih =>
    have hx := (List.pairwise_cons.mp h).1
    rcases List.mem_cons.mp ha with ha | ha
    · rcases List.mem_cons.mp hb with hb | hb
      · rw [ha, hb]
      · exact absurd hq (by rw [ha]; exact hx b hb)
    · rcases List.mem_cons.mp hb with hb | hb
      · exact absurd hq.symm (by rw [hb]; exact hx a ha)
      · exact ih (List.pairwise_cons.mp h).2 ha hb

theorem find_some {α} {f : α → Bool} {l : List α} {a : α} (h : l.find? f = some a) : a ∈ l ∧ f a = true :=
  ⟨List.mem_of_find?_eq_some h, List.find?_some h⟩

/-- replacing pc / total of the processes with ordinal q keeps the ordinals -/
def updPc (q : Nat) (pc : MPc) (tot : Option Nat) (p : MProc) : MProc :=
  if p.q == q then { p with pc := pc, total := tot.getD p.total } else p

theorem updPc_q (q : Nat) (pc : MPc) (tot : Option Nat) (p : MProc) : (updPc q pc tot p).q = p.q := by
  unfold updPc; split <;> rfl

theorem updPc_of_ne {q : Nat} {pc : MPc} {tot : Option Nat} {p : MProc} (h : p.q ≠ q) : updPc q pc tot p = p := by
  unfold updPc; simp [h]

theorem updPc_of_eq {q : Nat} {pc : MPc} {tot : Option Nat} {p : MProc} (h : p.q = q) :
    (updPc q pc tot p).pc = pc ∧ (updPc q pc tot p).total = tot.getD p.total := by
  unfold updPc; simp [h]

theorem pairwise_map_q {l : List MProc} (g : MProc → MProc) (hg : ∀ p, (g p).q = p.q)
    (h : l.Pairwise (fun a b => a.q ≠ b.q)) : (l.map g).Pairwise (fun a b => a.q ≠ b.q) := by
  rw [List.pairwise_map]
  exact h.imp (fun hab => by rw [hg, hg]; exact hab)

/-- a move process (re)starts a timer: pc := run, a fresh Timeout is scheduled -/
theorem TIg.runPc {x : Option Nat} {s : CBelt} (h : TIg x s) (q ph rem tot : Nat)
    (hx : ∀ y, x = some y → y = q)
    (hit : ∀ it ∈ s.items, it.seq = q → it.intStart = none ∧ s.now + rem = it.entry + it.totalInt + target s.cfg ph ∧ tot = it.totalInt ∧
      (ph = 1 ∨ ph = 2)) :
    TIg none ((({ s with nextUid := s.nextUid + 1, procs := s.procs.map (updPc q (.run ph s.now rem s.nextUid) (some tot)) } : CBelt)).sched
      (s.now + rem) false (.tmo s.nextUid)) := by
  obtain ⟨a1, a2, a3, a4, a5, a6, a7, a8, a9, a10, a16, a11, a12, a13, a14, a15⟩ := h
  have hmem : ∀ p', p' ∈ s.procs.map (updPc q (.run ph s.now rem s.nextUid) (some tot)) →
      ∃ p ∈ s.procs, p' = updPc q (.run ph s.now rem s.nextUid) (some tot) p := by
    intro p' hp'; obtain ⟨p, hp, rfl⟩ := List.mem_map.mp hp'; exact ⟨p, hp, rfl⟩
  refine ⟨a1, insCEv_sorted a2, ?_, ?_, ?_, ?_, ?_, ?_, a9, ?_, ?_, ?_, ?_, a13, a14, a15⟩
  · intro ev hev
    rcases mem_insCEv.mp hev with rfl | hev
    · exact Nat.le_add_right _ _
    · exact a3 ev hev
  · intro ev hev u hk
    rcases mem_insCEv.mp hev with rfl | hev
    · simp only [CKind.tmo.injEq] at hk; subst hk; exact Nat.lt_succ_self _
    · exact Nat.lt_succ_of_lt (a4 ev hev u hk)
  · intro ev hev q' hk
    rcases mem_insCEv.mp hev with rfl | hev
    · cases hk
    · exact a5 ev hev q' hk
  · intro ev hev q' hk it hit' hs
    rcases mem_insCEv.mp hev with rfl | hev
    · cases hk
    · exact a6 ev hev q' hk it hit' hs
  · intro p' hp'
    obtain ⟨p, hp, rfl⟩ := hmem p' hp'
    rw [updPc_q]; exact a7 p hp
  · exact pairwise_map_q _ (updPc_q _ _ _) a8
  · intro p' hp' _ it hit' hs
    obtain ⟨p, hp, rfl⟩ := hmem p' hp'
    rw [updPc_q] at hs
    by_cases hq : p.q = q
    · obtain ⟨hpc, htot⟩ := updPc_of_eq (pc := .run ph s.now rem s.nextUid) (tot := some tot) hq
      obtain ⟨h1, h2, h3, hph⟩ := hit it hit' (by rw [hs, hq])
      unfold PcOK
      rw [hpc]
      simp only
      refine ⟨h1, h2, by rw [htot]; exact h3, hph, Nat.le_refl _, _, mem_insCEv.mpr (Or.inl rfl), rfl, rfl⟩
    · rw [updPc_of_ne hq]
      have hne : x ≠ some p.q := by
        intro hc; exact hq (hx _ hc)
      refine (a10 p hp hne it hit' hs).mono rfl (Nat.le_refl _) ?_
      intro ev hev _; exact mem_insCEv.mpr (Or.inr hev)
  · intro p' hp' ph' st' rm' u hpc
    obtain ⟨p, hp, rfl⟩ := hmem p' hp'
    by_cases hq : p.q = q
    · rw [(updPc_of_eq hq).1] at hpc
      simp only [MPc.run.injEq] at hpc
      obtain ⟨_, _, _, rfl⟩ := hpc
      exact Nat.lt_succ_self _
    · rw [updPc_of_ne hq] at hpc
      exact Nat.lt_succ_of_lt (a16 p hp ph' st' rm' u hpc)
  · intro ev hev u hk p' hp' ph' st' rm' hpc
    obtain ⟨p, hp, rfl⟩ := hmem p' hp'
    by_cases hq : p.q = q
    · rw [(updPc_of_eq hq).1] at hpc
      simp only [MPc.run.injEq] at hpc
      obtain ⟨_, rfl, rfl, rfl⟩ := hpc
      rcases mem_insCEv.mp hev with rfl | hev
      · rfl
      · exact absurd (a4 ev hev _ hk) (Nat.lt_irrefl _)
    · rw [updPc_of_ne hq] at hpc
      rcases mem_insCEv.mp hev with rfl | hev
      · simp only [CKind.tmo.injEq] at hk; subst hk
        exact absurd (a16 p hp ph' st' rm' _ hpc) (Nat.lt_irrefl _)
      · exact a11 ev hev u hk p hp ph' st' rm' hpc
  · intro p1 hp1 p2 hp2 ph1 st1 rm1 ph2 st2 rm2 u hpc1 hpc2
    obtain ⟨p, hp, rfl⟩ := hmem p1 hp1
    obtain ⟨p', hp', rfl⟩ := hmem p2 hp2
    rw [updPc_q, updPc_q]
    by_cases hq : p.q = q <;> by_cases hq' : p'.q = q
    · rw [hq, hq']
    · rw [(updPc_of_eq hq).1] at hpc1
      rw [updPc_of_ne hq'] at hpc2
      simp only [MPc.run.injEq] at hpc1
      obtain ⟨_, _, _, rfl⟩ := hpc1
      exact absurd (a16 p' hp' ph2 st2 rm2 _ hpc2) (Nat.lt_irrefl _)
    · rw [updPc_of_ne hq] at hpc1
      rw [(updPc_of_eq hq').1] at hpc2
      simp only [MPc.run.injEq] at hpc2
      obtain ⟨_, _, _, rfl⟩ := hpc2
      exact absurd (a16 p hp ph1 st1 rm1 _ hpc1) (Nat.lt_irrefl _)
    · rw [updPc_of_ne hq] at hpc1
      rw [updPc_of_ne hq'] at hpc2
      exact a12 p hp p' hp' ph1 st1 rm1 ph2 st2 rm2 u hpc1 hpc2

/-- the process with ordinal q ends (arrival, or the escaped Interrupt): its entry is dropped -/
theorem TIg.dropProc {x : Option Nat} {s : CBelt} (h : TIg x s) (q : Nat) (hx : ∀ y, x = some y → y = q) :
    TIg none { s with procs := s.procs.filter (fun p => p.q != q) } := by
  obtain ⟨a1, a2, a3, a4, a5, a6, a7, a8, a9, a10, a16, a11, a12, a13, a14, a15⟩ := h
  have hsub : ∀ p, p ∈ s.procs.filter (fun p => p.q != q) → p ∈ s.procs ∧ p.q ≠ q := by
    intro p hp
    have := List.mem_filter.mp hp
    exact ⟨this.1, by simpa using this.2⟩
  refine ⟨a1, a2, a3, a4, a5, a6, ?_, a8.sublist List.filter_sublist, a9, ?_, ?_, ?_, ?_, a13, a14, a15⟩
  · intro p hp; exact a7 p (hsub p hp).1
  · intro p hp _ it hit hs
    have hne : x ≠ some p.q := by
      intro hc; exact (hsub p hp).2 (hx _ hc)
    exact (a10 p (hsub p hp).1 hne it hit hs).mono rfl (Nat.le_refl _) (fun ev hev _ => hev)
  · intro p hp; exact a16 p (hsub p hp).1
  · intro ev hev u hk p hp; exact a11 ev hev u hk p (hsub p hp).1
  · intro p hp p' hp'; exact a12 p (hsub p hp).1 p' (hsub p' hp').1

end CBelt
end FsVerif
