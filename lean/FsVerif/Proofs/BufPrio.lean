/-
BufStore model with priority requests (FleetStore.reserve_put / reserve_get take a `priority`; the queue is re-sorted,
stably, after every append): the invariant `Core` is preserved.  Neither wake-up condition depends on WHICH request is at
the head of a queue (BufferStore / FleetStore requests carry no filter), so no sortedness is needed here.
-/
import FsVerif.Proofs.BufInv
namespace FsVerif

theorem foldl_insSorted_perm (l : List Tok) : ∀ acc : List Tok, (l.foldl (fun acc x => insSorted x acc) acc).Perm (acc ++ l) := by
  induction l with
  | nil => intro acc; simp
  | cons x xs ih =>
    intro acc
    simp only [List.foldl_cons]
    refine (ih _).trans ?_
    have h1 : (insSorted x acc ++ xs).Perm ((x :: acc) ++ xs) := (insSorted_perm x acc).append_right xs
    refine h1.trans ?_
    simpa using (List.perm_middle (a := x) (l₁ := acc) (l₂ := xs)).symm

theorem stableSort_perm (l : List Tok) : (stableSort l).Perm l := by
  unfold stableSort
  simpa using foldl_insSorted_perm l []

namespace BufStore

theorem reservePutP_core {s : BufStore} (p : Nat) (pr : Int) (h : Core s) : Core (s.reservePutP p pr).1 := by
  unfold reservePutP
  simp only
  generalize ht : ({ id := s.nextTid, proc := p, prio := pr } : Tok) = t
  have hid : t.id = s.nextTid := by rw [← ht]
  have hL : (stableSort (s.putQ ++ [t])).Perm (t :: s.putQ) :=
    (stableSort_perm _).trans (by simpa using (List.perm_middle (a := t) (l₁ := s.putQ) (l₂ := [])))
  have hlen : (stableSort (s.putQ ++ [t])).length = s.putQ.length + 1 := by simpa using hL.length_eq
  have hp : (allToks { s with nextTid := s.nextTid + 1, putQ := stableSort (s.putQ ++ [t]) }).Perm (t :: allToks s) := by
    unfold allToks; simp only [List.append_assoc]
    exact (hL.append_right _).trans (by simp)
  have hpre : Pre { s with nextTid := s.nextTid + 1, putQ := stableSort (s.putQ ++ [t]) } := by
    obtain ⟨⟨a, b, c, f, g, i, j, k, l, m⟩, _, _⟩ := h
    refine ⟨a, ?_, ?_, f, g, i, j, k, l, m⟩
    · refine ((hp.map Tok.id).nodup_iff).mpr ?_
      simp only [List.map_cons, List.nodup_cons]
      refine ⟨?_, b⟩
      intro hm
      obtain ⟨a', ha', hea⟩ := List.mem_map.mp hm
      have := c a' ha'; omega
    · intro t' ht'
      rcases List.mem_cons.mp (hp.mem_iff.mp ht') with rfl | ht'
      · simp [hid]
      · have := c t' ht'; simp; omega
  refine ⟨trigPut_pre hpre, trigPut_wakePut ?_ ?_, trigPut_wakeGet h.wakeGet⟩
  · intro t' q hq hne c hc
    simp only [level] at hq hc ⊢
    have hs : s.putQ ≠ [] := by
      intro he
      rw [hq] at hlen
      rw [he] at hlen
      simp at hlen
      exact hne hlen
    have := full_of_waiting h.wakePut hs c hc; simp [level] at this; omega
  · intro hc
    simp only at hc ⊢
    rw [hlen, putQ_nil_of_inf h.wakePut hc]; simp

theorem reserveGetP_core {s : BufStore} (p : Nat) (pr : Int) (h : Core s) : Core (s.reserveGetP p pr).1 := by
  unfold reserveGetP
  simp only
  generalize ht : ({ id := s.nextTid, proc := p, prio := pr } : Tok) = t
  have hid : t.id = s.nextTid := by rw [← ht]
  have hL : (stableSort (s.getQ ++ [t])).Perm (t :: s.getQ) :=
    (stableSort_perm _).trans (by simpa using (List.perm_middle (a := t) (l₁ := s.getQ) (l₂ := [])))
  have hlen : (stableSort (s.getQ ++ [t])).length = s.getQ.length + 1 := by simpa using hL.length_eq
  have hp : (allToks { s with nextTid := s.nextTid + 1, getQ := stableSort (s.getQ ++ [t]) }).Perm (t :: allToks s) := by
    unfold allToks; simp only [List.append_assoc]
    have h1 : (stableSort (s.getQ ++ [t]) ++ s.getRes).Perm (t :: (s.getQ ++ s.getRes)) := by simpa using hL.append_right s.getRes
    have h2 : (s.putQ ++ (s.putRes ++ (stableSort (s.getQ ++ [t]) ++ s.getRes))).Perm (s.putQ ++ (s.putRes ++ t :: (s.getQ ++ s.getRes))) :=
      List.Perm.append_left _ (List.Perm.append_left _ h1)
    refine h2.trans ?_
    have h3 : (s.putRes ++ t :: (s.getQ ++ s.getRes)).Perm (t :: (s.putRes ++ (s.getQ ++ s.getRes))) := List.perm_middle
    exact (List.Perm.append_left _ h3).trans List.perm_middle
  have hpre : Pre { s with nextTid := s.nextTid + 1, getQ := stableSort (s.getQ ++ [t]) } := by
    obtain ⟨⟨a, b, c, f, g, i, j, k, l, m⟩, _, _⟩ := h
    refine ⟨a, ?_, ?_, f, g, i, j, k, l, m⟩
    · refine ((hp.map Tok.id).nodup_iff).mpr ?_
      simp only [List.map_cons, List.nodup_cons]
      refine ⟨?_, b⟩
      intro hm
      obtain ⟨a', ha', hea⟩ := List.mem_map.mp hm
      have := c a' ha'; omega
    · intro t' ht'
      rcases List.mem_cons.mp (hp.mem_iff.mp ht') with rfl | ht'
      · simp [hid]
      · have := c t' ht'; simp; omega
  refine ⟨trigGet_pre hpre, trigGet_wakePut h.wakePut, trigGet_wakeGet hpre ?_⟩
  intro t' q hq hne
  simp only at hq ⊢
  have hs : s.getQ ≠ [] := by
    intro he
    rw [hq] at hlen
    rw [he] at hlen
    simp at hlen
    exact hne hlen
  have := h.wakeGet hs; omega

end BufStore
end FsVerif
