/-
Continuous-conveyor model: the travel-time invariant.

For every move process and its item the remaining travel is accounted for exactly:
  running   (phase, start, rem, timeout u):  start + rem = entry + totalInterruption + target(phase), the Timeout u is
                                             pending at start + rem (so the clock cannot pass it);
  stopped   (phase, rem, since):             since + rem = entry + totalInterruption + target(phase)  — an interrupted item
                                             resumes with exactly the travel it had left;
target(1) = item_length/speed, target(2) = capacity·item_length/speed.  Hence every item is offered at the exit at
exactly  entry + capacity·p1 + (time it spent stopped).
-/
import FsVerif.Proofs.CBeltFrame
namespace FsVerif
namespace CBelt

def target (cfg : CCfg) (phase : Nat) : Nat := if phase = 1 then cfg.p1 else cfg.cap * cfg.p1

def PcOK (s : CBelt) (p : MProc) (it : CItem) : Prop :=
  match p.pc with
  | .fresh => True
  | .run ph st rm u =>
      it.intStart = none ∧ st + rm = it.entry + it.totalInt + target s.cfg ph ∧ p.total = it.totalInt ∧ (ph = 1 ∨ ph = 2) ∧
      st ≤ s.now ∧ ∃ ev ∈ s.queue, ev.kind = .tmo u ∧ ev.time = st + rm
  | .wait ph rm ist _ =>
      it.intStart = some ist ∧ ist + rm = it.entry + it.totalInt + target s.cfg ph ∧ p.total = it.totalInt ∧ (ph = 1 ∨ ph = 2) ∧
      ist ≤ s.now

/-- `x`: a move process (put ordinal) that is in the middle of a step: its accounting is re-established at the end -/
structure TIg (x : Option Nat) (s : CBelt) : Prop where
  capPos : ∀ e ∈ s.entered, 1 ≤ s.cfg.cap
  sorted : QSorted s.queue
  clock : ∀ ev ∈ s.queue, s.now ≤ ev.time
  uidLt : ∀ ev ∈ s.queue, ∀ u, ev.kind = .tmo u → u < s.nextUid
  initLt : ∀ ev ∈ s.queue, ∀ q, ev.kind = .initM q → q < s.nput
  initOK : ∀ ev ∈ s.queue, ∀ q, ev.kind = .initM q → ∀ it ∈ s.items, it.seq = q → ev.time = it.entry
  procLt : ∀ p ∈ s.procs, p.q < s.nput
  procQ : s.procs.Pairwise (fun a b => a.q ≠ b.q)
  itemLt : ∀ it ∈ s.items, it.seq < s.nput
  pcOK : ∀ p ∈ s.procs, x ≠ some p.q → ∀ it ∈ s.items, it.seq = p.q → PcOK s p it
  procUid : ∀ p ∈ s.procs, ∀ ph st rm u, p.pc = .run ph st rm u → u < s.nextUid
  tmoOK : ∀ ev ∈ s.queue, ∀ u, ev.kind = .tmo u → ∀ p ∈ s.procs, ∀ ph st rm, p.pc = .run ph st rm u → ev.time = st + rm
  uidUniq : ∀ p ∈ s.procs, ∀ p' ∈ s.procs, ∀ ph st rm ph' st' rm' u, p.pc = .run ph st rm u → p'.pc = .run ph' st' rm' u → p.q = p'.q
  entOK : ∀ it ∈ s.items, ∃ e ∈ s.entered, e.seq = it.seq ∧ e.entry = it.entry
  entLe : ∀ e ∈ s.entered, e.entry ≤ s.now
  arrOK : ∀ a ∈ s.arrivals, ∃ e ∈ s.entered, e.seq = a.q ∧ a.t = e.entry + s.cfg.cap * s.cfg.p1 + a.ti

abbrev TI (s : CBelt) : Prop := TIg none s

theorem init_ti (cfg : CCfg) : TI (init cfg) := by
  constructor <;> simp [init, QSorted]

/-- PcOK only reads cfg, now, nextUid and the queue -/
theorem PcOK.mono {s s' : CBelt} {p : MProc} {it : CItem} (h : PcOK s p it) (e1 : s'.cfg = s.cfg) (e2 : s.now ≤ s'.now)
    (e4 : ∀ ev ∈ s.queue, (∃ u, ev.kind = .tmo u) → ev ∈ s'.queue) : PcOK s' p it := by
  unfold PcOK at h ⊢
  split
  · trivial
  · rename_i ph st rm u hpc
    rw [hpc] at h
    simp only at h
    obtain ⟨h1, h2, h3, h4, h5, ev, hev, hk, ht⟩ := h
    exact ⟨h1, by rw [e1]; exact h2, h3, h4, Nat.le_trans h5 e2, ev, e4 ev hev ⟨u, hk⟩, hk, ht⟩
  · rename_i ph rm ist g hpc
    rw [hpc] at h
    simp only at h
    obtain ⟨h1, h2, h3, h4, h5⟩ := h
    exact ⟨h1, by rw [e1]; exact h2, h3, h4, Nat.le_trans h5 e2⟩

theorem TIg.fr {x : Option Nat} {s s' : CBelt} (h : TIg x s) (f : Fr s s') : TIg x s' := by
  obtain ⟨a1, a2, a3, a4, a5, a6, a7, a8, a9, a10, a16, a11, a12, a13, a14, a15⟩ := h
  have hq : ∀ ev ∈ s'.queue, (∃ u, ev.kind = .tmo u) ∨ (∃ q, ev.kind = .initM q) → ev ∈ s.queue := by
    intro ev hev hk
    rcases f.qNew ev hev with h | ⟨_, hl⟩
    · exact h
    · rcases hk with ⟨u, hk⟩ | ⟨q, hk⟩ <;> (rw [hk] at hl; exact absurd hl (by simp [CKind.light]))
  refine ⟨?_, f.sorted a2, ?_, ?_, ?_, ?_, ?_, ?_, ?_, ?_, ?_, ?_, ?_, ?_, ?_, ?_⟩
  · intro e he; rw [f.cfg]; exact a1 e (by rw [← f.entered]; exact he)
  · intro ev hev
    rw [f.now]
    rcases f.qNew ev hev with h | ⟨ht, _⟩
    · exact a3 ev h
    · omega
  · intro ev hev u hk
    exact Nat.lt_of_lt_of_le (a4 ev (hq ev hev (Or.inl ⟨u, hk⟩)) u hk) f.uid
  · intro ev hev q hk; rw [f.nput]; exact a5 ev (hq ev hev (Or.inr ⟨q, hk⟩)) q hk
  · intro ev hev q hk it hit hs
    exact a6 ev (hq ev hev (Or.inr ⟨q, hk⟩)) q hk it (by rw [← f.items]; exact hit) hs
  · intro p hp; rw [f.nput]; exact a7 p (by rw [← f.procs]; exact hp)
  · rw [f.procs]; exact a8
  · intro it hit; rw [f.nput]; exact a9 it (by rw [← f.items]; exact hit)
  · intro p hp hx it hit hs
    refine (a10 p (by rw [← f.procs]; exact hp) hx it (by rw [← f.items]; exact hit) hs).mono f.cfg (by rw [f.now]; exact Nat.le_refl _) ?_
    intro ev hev _; exact f.qOld ev hev
  · intro p hp ph st rm u hpc
    exact Nat.lt_of_lt_of_le (a16 p (by rw [← f.procs]; exact hp) ph st rm u hpc) f.uid
  · intro ev hev u hk p hp ph st rm hpc
    exact a11 ev (hq ev hev (Or.inl ⟨u, hk⟩)) u hk p (by rw [← f.procs]; exact hp) ph st rm hpc
  · intro p hp p' hp'
    exact a12 p (by rw [← f.procs]; exact hp) p' (by rw [← f.procs]; exact hp')
  · intro it hit
    obtain ⟨e, he, h1⟩ := a13 it (by rw [← f.items]; exact hit)
    exact ⟨e, by rw [f.entered]; exact he, h1⟩
  · intro e he; rw [f.now]; exact a14 e (by rw [← f.entered]; exact he)
  · intro a ha
    obtain ⟨e, he, h1, h2⟩ := a15 a (by rw [← f.arrivals]; exact ha)
    exact ⟨e, by rw [f.entered]; exact he, h1, by rw [f.cfg]; exact h2⟩

/-- the store-side triggers and the statistics touch nothing the invariant reads -/
structure FrS (s s' : CBelt) : Prop where
  cfg : s'.cfg = s.cfg
  now : s'.now = s.now
  items : s'.items = s.items
  procs : s'.procs = s.procs
  entered : s'.entered = s.entered
  arrivals : s'.arrivals = s.arrivals
  nput : s'.nput = s.nput
  uid : s'.nextUid = s.nextUid
  queue : s'.queue = s.queue

theorem TIg.frS {x : Option Nat} {s s' : CBelt} (h : TIg x s) (f : FrS s s') : TIg x s' := by
  obtain ⟨e1, e2, e3, e4, e5, e6, e7, e8, e9⟩ := f
  obtain ⟨a1, a2, a3, a4, a5, a6, a7, a8, a9, a10, a16, a11, a12, a13, a14, a15⟩ := h
  have hpc : ∀ p it, PcOK s p it → PcOK s' p it := by
    intro p it hp
    exact hp.mono e1 (by rw [e2]; exact Nat.le_refl _) (by intro ev hev _; rw [e9]; exact hev)
  constructor <;> simp only [e1, e2, e3, e4, e5, e6, e7, e8, e9] at * <;> first | assumption | skip
  intro p hp hx it hit hs
  exact hpc p it (a10 p hp hx it hit hs)

theorem FrS.refl (s : CBelt) : FrS s s := ⟨rfl, rfl, rfl, rfl, rfl, rfl, rfl, rfl, rfl⟩
theorem FrS.trans {a b c : CBelt} (h1 : FrS a b) (h2 : FrS b c) : FrS a c :=
  ⟨h2.cfg.trans h1.cfg, h2.now.trans h1.now, h2.items.trans h1.items, h2.procs.trans h1.procs, h2.entered.trans h1.entered,
   h2.arrivals.trans h1.arrivals, h2.nput.trans h1.nput, h2.uid.trans h1.uid, h2.queue.trans h1.queue⟩

theorem FrS.trigPut (s : CBelt) : FrS s s.trigPut := by
  unfold CBelt.trigPut
  split
  · exact FrS.refl s
  · split <;> exact ⟨rfl, rfl, rfl, rfl, rfl, rfl, rfl, rfl, rfl⟩

theorem FrS.trigGet (s : CBelt) : FrS s s.trigGet := by
  unfold CBelt.trigGet
  split
  · exact FrS.refl s
  · split
    · split <;> exact ⟨rfl, rfl, rfl, rfl, rfl, rfl, rfl, rfl, rfl⟩
    · exact FrS.refl s

theorem FrS.updLevel (s : CBelt) : FrS s s.updLevel := ⟨rfl, rfl, rfl, rfl, rfl, rfl, rfl, rfl, rfl⟩

end CBelt
end FsVerif
