/-
PriorityReqStore (priority_req_store.py): the occupancy never exceeds the capacity — a put request is triggered only while
`len(items) < capacity`, whatever the order of requests, cancellations and kernel events.
-/
import FsVerif.Proofs.PrioReq
namespace FsVerif
namespace PrioReq

def Cap (s : PrioReq) : Prop := s.items.length ≤ s.cap

theorem Cap.congr {s s' : PrioReq} (h : Cap s) (e1 : s'.items = s.items) (e2 : s'.cap = s.cap) : Cap s' := by
  unfold Cap; rw [e1, e2]; exact h

theorem Cap.trigPut {s : PrioReq} (h : Cap s) : Cap s.trigPut := by
  unfold PrioReq.trigPut
  split
  · exact h
  · split
    · rename_i hlt
      show (s.items ++ [_]).length ≤ s.cap
      simp only [List.length_append, List.length_cons, List.length_nil]; omega
    · exact h

theorem Cap.trigGet {s : PrioReq} (h : Cap s) : Cap s.trigGet := by
  unfold PrioReq.trigGet
  split
  · exact h
  · split
    · exact h
    · rename_i x xs hx
      show xs.length ≤ s.cap
      have : s.items.length ≤ s.cap := h
      rw [hx] at this
      simp only [List.length_cons] at this; omega

theorem Cap.kstep {s : PrioReq} (h : Cap s) : Cap s.kstep := by
  unfold PrioReq.kstep
  split
  · exact h
  · simp only
    split
    · exact Cap.trigGet (h.congr rfl rfl)
    · exact Cap.trigPut (h.congr rfl rfl)

theorem Cap.settleAux (n : Nat) : ∀ {s : PrioReq}, Cap s → Cap (settleAux n s) := by
  induction n with
  | zero => intro s h; exact h
  | succ n ih =>
    intro s h
    unfold PrioReq.settleAux
    split
    · exact h
    · exact ih h.kstep

theorem Cap.step {s : PrioReq} (h : Cap s) (op : Op) : Cap (step s op) := by
  have h' : Cap { s with fired := [], err := false } := h.congr rfl rfl
  unfold PrioReq.step
  cases op with
  | put p x => exact Cap.trigPut (h'.congr rfl rfl)
  | get p => exact Cap.trigGet (h'.congr rfl rfl)
  | cancel i =>
    simp only [PrioReq.cancel]
    split
    · exact h'.congr rfl rfl
    · split
      · exact h'
      · exact h'.congr rfl rfl
  | kstep => exact h'.kstep
  | settle => exact Cap.settleAux _ h'

theorem run_cap (ops : List Op) : ∀ s : PrioReq, Cap s → Cap (run s ops) := by
  induction ops with
  | nil => intro s h; exact h
  | cons op ops ih => intro s h; exact ih _ (h.step op)

theorem reachable_cap {s : PrioReq} (h : Reachable s) : s.items.length ≤ s.cap := by
  obtain ⟨cap, ops, rfl⟩ := h
  exact run_cap ops _ (Nat.zero_le _)

end PrioReq
end FsVerif
