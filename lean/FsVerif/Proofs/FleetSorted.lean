/-
FleetStore model: both request queues of the store inside a Fleet are in service order — by priority, first come first served
among equals — in every reachable state (C05 for fleet_store.py).  Requests leave a queue only from the head or by cancellation.
-/
import FsVerif.Proofs.Fleet
namespace FsVerif
namespace BufStore

structure QS (b : BufStore) : Prop where
  sp : QSorted b.putQ
  sg : QSorted b.getQ
  lt : ∀ t ∈ b.putQ ++ b.getQ, t.id < b.nextTid

structure QSub (b b' : BufStore) : Prop where
  p : b'.putQ.Sublist b.putQ
  g : b'.getQ.Sublist b.getQ
  n : b'.nextTid = b.nextTid

theorem QSub.refl (b : BufStore) : QSub b b := ⟨List.Sublist.refl _, List.Sublist.refl _, rfl⟩
theorem QSub.trans {a b c : BufStore} (h1 : QSub a b) (h2 : QSub b c) : QSub a c :=
  ⟨h2.p.trans h1.p, h2.g.trans h1.g, h2.n.trans h1.n⟩
theorem QSub.of_eq {b b' : BufStore} (e1 : b'.putQ = b.putQ) (e2 : b'.getQ = b.getQ) (e3 : b'.nextTid = b.nextTid) : QSub b b' :=
  ⟨by rw [e1]; exact List.Sublist.refl _, by rw [e2]; exact List.Sublist.refl _, e3⟩

theorem QS.sub {b b' : BufStore} (h : QS b) (f : QSub b b') : QS b' := by
  refine ⟨List.Pairwise.sublist f.p h.sp, List.Pairwise.sublist f.g h.sg, ?_⟩
  intro t ht
  rw [f.n]
  apply h.lt t
  rcases List.mem_append.mp ht with h1 | h1
  · exact List.mem_append_left _ (f.p.subset h1)
  · exact List.mem_append_right _ (f.g.subset h1)

theorem QSub.trigPut (s : BufStore) : QSub s s.trigPut := by
  rcases trigPut_cases s with ⟨he, _⟩ | ⟨t, q, hq, _, he⟩
  · rw [he]; exact QSub.refl s
  · rw [he]; exact ⟨by rw [hq]; exact List.sublist_cons_self t q, List.Sublist.refl _, rfl⟩

theorem QSub.trigGet (s : BufStore) : QSub s s.trigGet := by
  rcases trigGet_cases s with ⟨he, _⟩ | ⟨t, q, e, hq, _, _, he⟩ | ⟨t, q, hq, _, _, he⟩
  · rw [he]; exact QSub.refl s
  · rw [he]; exact ⟨List.Sublist.refl _, by rw [hq]; exact List.sublist_cons_self t q, rfl⟩
  · rw [he]; exact ⟨List.Sublist.refl _, by rw [hq]; exact List.sublist_cons_self t q, rfl⟩

theorem QSub.put (s : BufStore) (p tid : Nat) (x : Item) (d : Nat) : QSub s (s.put p tid x d).1 := by
  unfold BufStore.put
  split
  · exact QSub.refl s
  · split
    · exact QSub.refl s
    · split
      · refine QSub.trans ?_ (QSub.trigGet _)
        exact QSub.of_eq rfl rfl rfl
      · exact QSub.of_eq rfl rfl rfl

theorem QSub.get (s : BufStore) (p tid : Nat) : QSub s (s.get p tid).1 := by
  unfold BufStore.get
  split
  · exact QSub.refl s
  · split
    · exact QSub.refl s
    · split
      · exact QSub.refl s
      · split
        · exact QSub.of_eq rfl rfl rfl
        · split
          · refine QSub.trans ?_ (QSub.trigPut _)
            exact QSub.of_eq rfl rfl rfl
          · exact QSub.of_eq rfl rfl rfl

theorem QSub.cancelPut (s : BufStore) (tid : Nat) : QSub s (s.cancelPut tid).1 := by
  unfold BufStore.cancelPut
  split
  · refine QSub.trans ?_ (QSub.trigPut _)
    exact ⟨List.erase_sublist, List.Sublist.refl _, rfl⟩
  · split
    · refine QSub.trans ?_ (QSub.trigPut _)
      exact QSub.of_eq rfl rfl rfl
    · exact QSub.refl s

theorem QSub.cancelGet (s : BufStore) (tid : Nat) : QSub s (s.cancelGet tid).1 := by
  unfold BufStore.cancelGet
  split
  · refine QSub.trans ?_ (QSub.trigGet _)
    exact ⟨List.Sublist.refl _, List.erase_sublist, rfl⟩
  · split
    · split
      · exact QSub.of_eq rfl rfl rfl
      · split
        · exact QSub.of_eq rfl rfl rfl
        · split
          · refine QSub.trans ?_ (QSub.trigGet _)
            exact QSub.of_eq rfl rfl rfl
          · exact QSub.of_eq rfl rfl rfl
    · exact QSub.refl s

theorem QS.reservePutP {s : BufStore} (h : QS s) (p : Nat) (pr : Int) : QS (s.reservePutP p pr).1 := by
  unfold BufStore.reservePutP
  refine QS.sub ?_ (QSub.trigPut _)
  have hnew : ∀ a ∈ s.putQ, a.id < s.nextTid := fun a ha => h.lt a (List.mem_append_left _ ha)
  refine ⟨?_, h.sg, ?_⟩
  · show QSorted (stableSort (s.putQ ++ [_]))
    rw [stableSort_append_one h.sp]
    exact insSorted_sorted h.sp hnew
  · intro t ht
    show t.id < s.nextTid + 1
    rcases List.mem_append.mp ht with h1 | h1
    · have h1' : t ∈ stableSort (s.putQ ++ [({ id := s.nextTid, proc := p, prio := pr } : Tok)]) := h1
      rw [stableSort_append_one h.sp] at h1'
      rcases mem_insSorted.mp h1' with rfl | h2
      · exact Nat.lt_succ_self _
      · exact Nat.lt_succ_of_lt (hnew t h2)
    · exact Nat.lt_succ_of_lt (h.lt t (List.mem_append_right _ h1))

theorem QS.reserveGetP {s : BufStore} (h : QS s) (p : Nat) (pr : Int) : QS (s.reserveGetP p pr).1 := by
  unfold BufStore.reserveGetP
  refine QS.sub ?_ (QSub.trigGet _)
  have hnew : ∀ a ∈ s.getQ, a.id < s.nextTid := fun a ha => h.lt a (List.mem_append_right _ ha)
  refine ⟨h.sp, ?_, ?_⟩
  · show QSorted (stableSort (s.getQ ++ [_]))
    rw [stableSort_append_one h.sg]
    exact insSorted_sorted h.sg hnew
  · intro t ht
    show t.id < s.nextTid + 1
    rcases List.mem_append.mp ht with h1 | h1
    · exact Nat.lt_succ_of_lt (h.lt t (List.mem_append_left _ h1))
    · have h1' : t ∈ stableSort (s.getQ ++ [({ id := s.nextTid, proc := p, prio := pr } : Tok)]) := h1
      rw [stableSort_append_one h.sg] at h1'
      rcases mem_insSorted.mp h1' with rfl | h2
      · exact Nat.lt_succ_self _
      · exact Nat.lt_succ_of_lt (hnew t h2)

end BufStore

namespace FleetStore
open BufStore (QS QSub)

/-- the fleet's own machinery only ever shortens the embedded store's queues from the head -/
def QF (s s' : FleetStore) : Prop := QSub s.b s'.b

theorem QF.refl (s : FleetStore) : QF s s := QSub.refl _
theorem QF.trans {a b c : FleetStore} (h1 : QF a b) (h2 : QF b c) : QF a c := QSub.trans h1 h2

theorem QF.sched (s : FleetStore) (t : Nat) (u : Bool) (k : FKind) : QF s (s.sched t u k) := QSub.refl _

theorem QF.enterLoop (s : FleetStore) : QF s s.enterLoop := by
  unfold FleetStore.enterLoop
  simp only
  split <;> exact QSub.refl _

theorem QF.body (s : FleetStore) : QF s s.body := by
  unfold FleetStore.body
  simp only
  refine QF.trans ?_ (QF.enterLoop _)
  split <;> split <;> exact QSub.refl _

theorem QF.moveOne (s : FleetStore) (e : BEntry) : QF s (s.moveOne e) := by
  unfold FleetStore.moveOne
  split
  · exact QSub.of_eq rfl rfl rfl
  · split
    · show QSub s.b (((s.b.arrive e).trigGet).trigPut)
      refine QSub.trans (QSub.trans ?_ (QSub.trigGet _)) (QSub.trigPut _)
      exact QSub.of_eq rfl rfl rfl
    · exact QSub.of_eq rfl rfl rfl

theorem QF.arriveTrip (s : FleetStore) (m : Nat) : QF s (s.arriveTrip m) := by
  unfold FleetStore.arriveTrip
  split
  · exact QF.refl s
  · rename_i t _
    have : ∀ (l : List BEntry) (x : FleetStore), QF x (l.foldl (fun s e => if s.b.crashed then s else s.moveOne e) x) := by
      intro l
      induction l with
      | nil => intro x; exact QF.refl x
      | cons e es ih =>
        intro x
        simp only [List.foldl_cons]
        refine QF.trans ?_ (ih _)
        split
        · exact QF.refl x
        · exact QF.moveOne x e
    refine QF.trans (b := { s with trips := s.trips.filter (fun t => t.id != m) }) ?_ (this _ _)
    exact QSub.refl _

theorem QF.handle (s : FleetStore) (k : FKind) : QF s (s.handle k) := by
  unfold FleetStore.handle
  cases k with
  | procInit =>
    simp only
    refine QF.trans (b := { s with started := true }) ?_ (QF.enterLoop _)
    exact QSub.refl _
  | tmo g => simp only; split <;> exact QSub.refl _
  | act a => simp only; split <;> split <;> exact QSub.refl _
  | cond g => simp only; split; exact QF.body s; exact QF.refl s
  | init m => exact QF.sched _ _ _ _
  | tr1 m => exact QF.sched _ _ _ _
  | tr2 m => exact QF.arriveTrip s m

theorem QF.trigger (s : FleetStore) : QF s s.trigger := by
  unfold FleetStore.trigger
  split <;> exact QSub.refl _

theorem qs_put {s : FleetStore} (h : QS s.b) (p tid : Nat) (x : Item) : QS (s.put p tid x).1.b := by
  unfold FleetStore.put
  have hb := BufStore.QSub.put s.b p tid x 0
  generalize s.b.put p tid x 0 = r at hb
  obtain ⟨b1, res⟩ := r
  simp only at hb ⊢
  cases res with
  | ok =>
    simp only
    refine QS.sub ?_ (QF.trigger _)
    refine QS.sub (h.sub hb) ?_
    refine BufStore.QSub.trans (BufStore.QSub.trigGet b1) ?_
    exact BufStore.QSub.of_eq rfl rfl rfl
  | _ => exact h.sub hb

theorem qs_step {s : FleetStore} (h : QS s.b) (op : Op) : QS (s.step op).1.b := by
  unfold FleetStore.step
  have h' : QS ({ s with b := { s.b with fired := [] }, newReady := [] } : FleetStore).b := h.sub (BufStore.QSub.of_eq rfl rfl rfl)
  cases op with
  | reservePut p => exact h'.reservePutP p 0
  | reserveGet p => exact h'.reserveGetP p 0
  | reservePutP p pr => exact h'.reservePutP p pr
  | reserveGetP p pr => exact h'.reserveGetP p pr
  | put p t x => exact qs_put h' p t x
  | get p t => exact h'.sub (BufStore.QSub.get _ p t)
  | cancelPut t => exact h'.sub (BufStore.QSub.cancelPut _ t)
  | cancelGet t => exact h'.sub (BufStore.QSub.cancelGet _ t)
  | adv dt =>
    simp only [FleetStore.adv]
    split
    · split <;> exact h'.sub (BufStore.QSub.of_eq rfl rfl rfl)
    · exact h'.sub (BufStore.QSub.of_eq rfl rfl rfl)
  | ev =>
    simp only [FleetStore.ev]
    split
    · exact h'
    · refine QS.sub ?_ (QF.handle _ _)
      exact h'.sub (BufStore.QSub.of_eq rfl rfl rfl)
  | final => exact h'.sub (BufStore.QSub.of_eq rfl rfl rfl)

theorem init_qs (cfg : FleetCfg) : QS (init cfg).b := by
  constructor <;> simp [init, BufStore.init, QSorted]

theorem run_qs (ops : List Op) : ∀ s : FleetStore, QS s.b → QS (s.run ops).b := by
  induction ops with
  | nil => intro s h; exact h
  | cons op ops ih => intro s h; exact ih _ (qs_step h op)

end FleetStore
end FsVerif
