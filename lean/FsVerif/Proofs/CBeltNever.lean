/-
Continuous-conveyor model: as long as the state machine has never entered a STALLED state, no item is ever interrupted:
no Interruption is pending, no delayed-interrupt process exists, no move process waits for the resume event, and every
total interruption time — of the items on the belt and of the recorded arrivals — is 0.
-/
import FsVerif.Proofs.CBeltSpace3
namespace FsVerif
namespace CBelt

structure NS (s : CBelt) : Prop where
  noIntr : ∀ ev ∈ s.queue, ∀ r, ev.kind ≠ .intr r
  noD : s.dprocs = []
  notStalled : s.st.stalled = false
  noWait : ∀ p ∈ s.procs, ∀ ph rm ist g, p.pc ≠ .wait ph rm ist g
  zero : ∀ it ∈ s.items, it.totalInt = 0
  zeroP : ∀ p ∈ s.procs, p.total = 0
  zeroA : ∀ a ∈ s.arrivals, a.ti = 0

theorem init_ns (cfg : CCfg) : NS (init cfg) := by
  constructor <;> simp [init, CState.stalled]

/-- the fields NS reads are unchanged -/
theorem NS.congr {s s' : CBelt} (h : NS s) (e1 : s'.queue = s.queue) (e2 : s'.dprocs = s.dprocs) (e3 : s'.st = s.st)
    (e4 : s'.procs = s.procs) (e5 : s'.items = s.items) (e6 : s'.arrivals = s.arrivals) : NS s' := by
  obtain ⟨a1, a2, a3, a4, a5, a6, a7⟩ := h
  constructor <;> simp only [e1, e2, e3, e4, e5, e6] at * <;> assumption

theorem NS.sched {s : CBelt} (h : NS s) (t : Nat) (u : Bool) (k : CKind) (hk : ∀ r, k ≠ .intr r) : NS (s.sched t u k) := by
  obtain ⟨a1, a2, a3, a4, a5, a6, a7⟩ := h
  refine ⟨?_, a2, a3, a4, a5, a6, a7⟩
  intro ev hev r
  rcases mem_insCEv.mp hev with rfl | hev
  · exact hk r
  · exact a1 ev hev r

theorem NS.trigPut {s : CBelt} (h : NS s) : NS s.trigPut := by
  unfold CBelt.trigPut
  split
  · exact h
  · split <;> exact h.congr rfl rfl rfl rfl rfl rfl

theorem NS.trigGet {s : CBelt} (h : NS s) : NS s.trigGet := by
  unfold CBelt.trigGet
  split
  · exact h
  · split
    · split <;> exact h.congr rfl rfl rfl rfl rfl rfl
    · exact h

theorem NS.giveUp {s : CBelt} (h : NS s) : NS s.giveUp := h.congr rfl rfl rfl rfl rfl rfl

theorem NS.endProc {s : CBelt} (h : NS s) (p : MProc) : NS (s.endProc p) := by
  obtain ⟨a1, a2, a3, a4, a5, a6, a7⟩ := h
  refine ⟨a1, a2, a3, ?_, a5, ?_, a7⟩
  · intro p' hp'; exact a4 p' (List.mem_filter.mp hp').1
  · intro p' hp'; exact a6 p' (List.mem_filter.mp hp').1

theorem NS.riTrig {s : CBelt} (h : NS s) : NS (({ s with ri := .trig } : CBelt).sched s.now false (.shot .ri s.riGen)) := by
  refine NS.sched ?_ _ _ (.shot .ri s.riGen) (by intro r hc; cases hc)
  exact h.congr rfl rfl rfl rfl rfl rfl

theorem NS.iaTrig {s : CBelt} (h : NS s) : NS (({ s with ia := .trig } : CBelt).sched s.now false (.shot .ia s.iaGen)) := by
  refine NS.sched ?_ _ _ (.shot .ia s.iaGen) (by intro r hc; cases hc)
  exact h.congr rfl rfl rfl rfl rfl rfl
theorem NS.paTrig {s : CBelt} (h : NS s) : NS (({ s with pa := .trig } : CBelt).sched s.now false (.shot .pa s.paGen)) := by
  refine NS.sched ?_ _ _ (.shot .pa s.paGen) (by intro r hc; cases hc)
  exact h.congr rfl rfl rfl rfl rfl rfl
theorem NS.gaTrig {s : CBelt} (h : NS s) : NS (({ s with ga := .trig } : CBelt).sched s.now false (.shot .ga s.gaGen)) := by
  refine NS.sched ?_ _ _ (.shot .ga s.gaGen) (by intro r hc; cases hc)
  exact h.congr rfl rfl rfl rfl rfl rfl

theorem NS.arrive {s : CBelt} (h : NS s) (p : MProc) : NS (s.arrive p) := by
  unfold CBelt.arrive
  split
  · exact (h.endProc p).giveUp
  · rename_i e he
    have hm : e ∈ s.items := List.mem_of_find?_eq_some he
    have hz := h.zero e hm
    have hsub : ∀ it ∈ s.items.erase e, it ∈ s.items := fun it hit => List.mem_of_mem_erase hit
    simp only
    have key : ∀ s1 : CBelt, s1.queue = s.queue → s1.dprocs = s.dprocs → s1.st = s.st → s1.procs = s.procs →
        s1.items = s.items.erase e → s1.arrivals = s.arrivals ++ [(⟨p.q, s.now, e.totalInt⟩ : Arr)] → NS s1 := by
      intro s1 e1 e2 e3 e4 e5 e6
      obtain ⟨a1, a2, a3, a4, a5, a6, a7⟩ := h
      refine ⟨by rw [e1]; exact a1, by rw [e2]; exact a2, by rw [e3]; exact a3, by rw [e4]; exact a4, ?_, by rw [e4]; exact a6, ?_⟩
      · intro it hit; rw [e5] at hit; exact a5 it (hsub it hit)
      · intro a ha
        rw [e6] at ha
        rcases List.mem_append.mp ha with ha | ha
        · exact a7 a ha
        · simp at ha; subst ha; exact hz
    split
    · split
      · refine NS.endProc (NS.trigPut (NS.trigGet ?_)) p
        exact (key { s with items := s.items.erase e, ready := s.ready ++ [{ e with readyEntry := s.now }], arrivals := s.arrivals ++ [(⟨p.q, s.now, e.totalInt⟩ : Arr)], newReady := s.newReady ++ [e.item.id] } rfl rfl rfl rfl rfl rfl).riTrig
      · refine NS.endProc (NS.trigPut (NS.trigGet ?_)) p
        exact key _ rfl rfl rfl rfl rfl rfl
    · refine NS.giveUp (NS.endProc ?_ p)
      exact key _ rfl rfl rfl rfl rfl rfl

/-- (re)starting a timer: pc := run; the process keeps total = 0 -/
theorem NS.runPc {s : CBelt} (h : NS s) (q ph rem u : Nat) (f : MProc → MProc)
    (hf : ∀ x, (f x).pc = .run ph s.now rem u ∧ (f x).total = 0) (t : Nat) :
    NS ((({ s with nextUid := u + 1 } : CBelt).setProc q f).sched t false (.tmo u)) := by
  refine NS.sched ?_ _ _ _ (by intro r hc; cases hc)
  obtain ⟨a1, a2, a3, a4, a5, a6, a7⟩ := h
  refine ⟨a1, a2, a3, ?_, a5, ?_, a7⟩
  · intro p' hp' ph' rm' ist g hpc
    obtain ⟨p0, hp0, rfl⟩ := List.mem_map.mp hp'
    split at hpc
    · rw [(hf p0).1] at hpc; cases hpc
    · exact a4 p0 hp0 ph' rm' ist g hpc
  · intro p' hp'
    obtain ⟨p0, hp0, rfl⟩ := List.mem_map.mp hp'
    split
    · exact (hf p0).2
    · exact a6 p0 hp0

theorem NS.startPhase {s : CBelt} (h : NS s) (p : MProc) (ph rem : Nat) (hp : p.total = 0) : NS (s.startPhase p ph rem) := by
  unfold CBelt.startPhase
  split
  · exact h.runPc p.q ph rem s.nextUid (fun x => { x with pc := .run ph s.now rem s.nextUid, total := p.total }) (fun x => ⟨rfl, hp⟩) _
  · split
    · simp only
      split
      · exact h.runPc p.q 2 ((s.cfg.cap - 1) * s.cfg.p1) s.nextUid
          (fun x => { x with pc := .run 2 s.now ((s.cfg.cap - 1) * s.cfg.p1) s.nextUid, total := p.total }) (fun x => ⟨rfl, hp⟩) _
      · exact h.arrive p
    · exact h.arrive p

theorem NS.setItem0 {s : CBelt} (h : NS s) (q : Nat) (f : CItem → CItem) (hf : ∀ it, (f it).totalInt = 0) : NS (s.setItem q f) := by
  obtain ⟨a1, a2, a3, a4, a5, a6, a7⟩ := h
  refine ⟨a1, a2, a3, a4, ?_, a6, a7⟩
  intro it' hit'
  obtain ⟨it, hit, rfl⟩ := List.mem_map.mp hit'
  split
  · exact hf it
  · exact a5 it hit

theorem NS.initM {s : CBelt} (h : NS s) (q : Nat) : NS (s.initM q) := by
  unfold CBelt.initM
  split
  · exact h
  · exact (h.setItem0 q _ (fun it => rfl)).startPhase _ _ _ rfl

theorem NS.onTimeout {s : CBelt} (h : NS s) (u : Nat) : NS (s.onTimeout u) := by
  unfold CBelt.onTimeout
  split
  · rename_i p hp
    have hmem : p ∈ s.procs := List.mem_of_find?_eq_some hp
    have hz := h.zeroP p hmem
    split
    · exact (h.sched _ _ .p1e (by intro r hc; cases hc)).startPhase p 1 0 hz
    · exact h.startPhase p 2 0 hz
  · split
    · rename_i d hd
      have := List.mem_of_find?_eq_some hd
      rw [h.noD] at this; cases this
    · exact h

theorem resumeOne_ns {s : CBelt} (h : NS s) (g q : Nat) : resumeOne g s q = s := by
  unfold CBelt.resumeOne
  split
  · rfl
  · rename_i p hp
    have hmem : p ∈ s.procs := List.mem_of_find?_eq_some hp
    split
    · rename_i ph rm ist gen hpc
      exact absurd hpc (h.noWait p hmem ph rm ist gen)
    · rfl

theorem NS.onResume {s : CBelt} (h : NS s) (g : Nat) : NS (s.onResume g) := by
  rw [onResume_eq]
  generalize s.waitOrder = l
  induction l with
  | nil => exact h
  | cons q qs ih =>
    simp only [List.foldl_cons]
    rw [resumeOne_ns h g q]
    exact ih

/-! ### the state machine: a step that does not set `everStalled` does not stall -/

theorem es_interruptItem (s : CBelt) (id : Nat) : (s.interruptItem id).everStalled = s.everStalled := by
  unfold CBelt.interruptItem; split <;> rfl

theorem es_spawnDelayed (s : CBelt) (id d : Nat) : (s.spawnDelayed id d).everStalled = s.everStalled := rfl

theorem es_foldl {α} (f : CBelt → α → CBelt) (hf : ∀ s a, (f s a).everStalled = s.everStalled) (l : List α) :
    ∀ s, (l.foldl f s).everStalled = s.everStalled := by
  induction l with
  | nil => intro s; rfl
  | cons a as ih => intro s; simp only [List.foldl_cons]; rw [ih, hf]

theorem es_executePlan (s : CBelt) (plan : List (Option Nat × Nat)) : (s.executePlan plan).everStalled = s.everStalled := by
  unfold CBelt.executePlan
  apply es_foldl
  intro s ins
  split
  · rfl
  · split
    · split
      · exact es_spawnDelayed _ _ _
      · exact es_interruptItem _ _
    · rfl

theorem es_selectiveInterrupt (s : CBelt) : s.selectiveInterrupt.everStalled = s.everStalled := by
  unfold CBelt.selectiveInterrupt
  split
  · rfl
  · split
    · exact es_foldl _ (fun s it => es_interruptItem s _) _ _
    · split
      · split
        · rfl
        · exact es_executePlan _ _
      · rfl

theorem es_makeCond (s : CBelt) : s.makeCond.everStalled = s.everStalled := by
  unfold CBelt.makeCond; simp only; split <;> rfl

/-- entering a stalled state sets the flag -/
theorem es_setState_stalled (s : CBelt) (new : CState) (hn : new.stalled = true) (ho : s.st.stalled = false) :
    (s.setState new).everStalled = true := by
  unfold CBelt.setState
  simp only [ho, hn, Bool.not_false, Bool.and_self, if_true]
  split
  · rw [es_selectiveInterrupt]; simp
  · rw [es_selectiveInterrupt]; simp

theorem NS.setState_quiet {s : CBelt} (h : NS s) (new : CState) (hn : new.stalled = false) : NS (s.setState new) := by
  unfold CBelt.setState
  have ho := h.notStalled
  simp only [ho, hn, Bool.not_false, Bool.false_and, Bool.and_false, Bool.false_eq_true, if_false]
  obtain ⟨a1, a2, a3, a4, a5, a6, a7⟩ := h
  exact ⟨a1, a2, hn, a4, a5, a6, a7⟩

theorem es_setState_quiet (s : CBelt) (new : CState) (hn : new.stalled = false) (ho : s.st.stalled = false) :
    (s.setState new).everStalled = s.everStalled := by
  unfold CBelt.setState
  simp only [ho, hn, Bool.not_false, Bool.false_and, Bool.and_false, Bool.false_eq_true, if_false, Bool.or_false]

theorem NS.makeCond {s : CBelt} (h : NS s) : NS s.makeCond := by
  unfold CBelt.makeCond
  simp only
  split
  · refine NS.sched ?_ _ _ (.cond s.nextUid) (by intro r hc; cases hc)
    exact h.congr rfl rfl rfl rfl rfl rfl
  · exact h.congr rfl rfl rfl rfl rfl rfl

theorem es_stallState (s : CBelt) (ho : s.st.stalled = false) : s.stallState.everStalled = true := by
  unfold CBelt.stallState
  split
  · exact es_setState_stalled s _ rfl ho
  · exact es_setState_stalled s _ rfl ho

theorem NS.bLoop {s : CBelt} (h : NS s) (hes : s.bLoop.everStalled = false) : NS s.bLoop := by
  unfold CBelt.bLoop at hes ⊢
  split
  · exact h.giveUp
  · split
    · simp only at hes ⊢
      have h1 : NS { s.setState .idle with noacc := false } := (h.setState_quiet .idle rfl).congr rfl rfl rfl rfl rfl rfl
      split
      · exact NS.makeCond (h1.congr rfl rfl rfl rfl rfl rfl)
      · exact h1.congr rfl rfl rfl rfl rfl rfl
    · split
      · exact NS.makeCond ((h.setState_quiet .moving rfl).congr rfl rfl rfl rfl rfl rfl)
      · -- the stalled branch sets the flag
        rename_i h1 h2 h3
        simp only [h1, h2, h3, if_false, Bool.false_eq_true] at hes
        rw [es_makeCond, es_stallState s h.notStalled] at hes
        cases hes

theorem es_resumeAll (s : CBelt) : s.resumeAll.everStalled = s.everStalled := rfl

theorem es_cancelDelayed (s : CBelt) : s.cancelDelayed.everStalled = s.everStalled := by
  unfold CBelt.cancelDelayed
  show (List.foldl (fun s e => s.sched s.now true (.intr (.delayed e.2))) s s.activeDelayed).everStalled = s.everStalled
  exact es_foldl (fun (s : CBelt) (e : Nat × Nat) => s.sched s.now true (.intr (.delayed e.2))) (fun s e => rfl) _ _

theorem es_setState_mono (s : CBelt) (new : CState) (h : s.everStalled = true) : (s.setState new).everStalled = true := by
  unfold CBelt.setState
  simp only
  split
  · split
    · rw [es_selectiveInterrupt]; simp [h]
    · rw [es_selectiveInterrupt]; simp [h]
  · split
    · split
      · rw [es_cancelDelayed, es_resumeAll]; simp [h]
      · rw [es_cancelDelayed, es_resumeAll]; simp [h]
    · simp [h]

theorem es_stallState_mono (s : CBelt) (h : s.everStalled = true) : s.stallState.everStalled = true := by
  unfold CBelt.stallState
  split
  · exact es_setState_mono s _ h
  · exact es_setState_mono s _ h

theorem es_bLoop_mono (s : CBelt) (h : s.everStalled = true) : s.bLoop.everStalled = true := by
  unfold CBelt.bLoop
  split
  · exact h
  · split
    · simp only
      have h1 := es_setState_mono s .idle h
      split
      · rw [es_makeCond]; exact h1
      · exact h1
    · split
      · rw [es_makeCond]; exact es_setState_mono s .moving h
      · rw [es_makeCond]; exact es_stallState_mono s h

theorem NS.bWake {s : CBelt} (h : NS s) (hes : s.bWake.everStalled = false) : NS s.bWake := by
  unfold CBelt.bWake at hes ⊢
  have h0 : NS { s with cond := none } := h.congr rfl rfl rfl rfl rfl rfl
  simp only at hes ⊢
  split
  · rename_i hri
    simp only [hri, if_true] at hes
    split
    · -- the head waits unreserved: the state machine stalls, the flag is set and stays set
      rename_i hst
      simp only [hst, if_true] at hes
      have h1 : (CBelt.stallState { s with cond := none }).everStalled = true := es_stallState _ h.notStalled
      have h2 := es_bLoop_mono ({ (CBelt.stallState { s with cond := none }) with ri := .pending, riGen := (CBelt.stallState { s with cond := none }).riGen + 1 }) h1
      rw [h2] at hes; cases hes
    · rename_i hst
      simp only [hst, if_false, Bool.false_eq_true] at hes
      exact NS.bLoop (h0.congr rfl rfl rfl rfl rfl rfl) hes
  · rename_i hri
    simp only [hri, if_false, Bool.false_eq_true] at hes
    split
    · rename_i hga
      simp only [hga, if_true] at hes
      exact NS.bLoop (h0.congr rfl rfl rfl rfl rfl rfl) hes
    · rename_i hga
      simp only [hga, if_false, Bool.false_eq_true] at hes
      split
      · rename_i hpa
        simp only [hpa, if_true] at hes
        exact NS.bLoop (h0.congr rfl rfl rfl rfl rfl rfl) hes
      · rename_i hpa
        simp only [hpa, if_false, Bool.false_eq_true] at hes
        exact NS.bLoop h0 hes

theorem NS.onShot {s : CBelt} (h : NS s) (w : Which) (g : Nat) : NS (s.onShot w g) := by
  unfold CBelt.onShot
  cases w with
  | ia =>
    simp only
    split
    · exact h
    · split
      · exact NS.makeCond (h.congr rfl rfl rfl rfl rfl rfl)
      · exact h.congr rfl rfl rfl rfl rfl rfl
  | ga =>
    simp only
    split
    · exact h
    · split
      · refine NS.sched ?_ _ _ (.cond _) (by intro r hc; cases hc)
        exact h.congr rfl rfl rfl rfl rfl rfl
      · exact h.congr rfl rfl rfl rfl rfl rfl
  | pa =>
    simp only
    split
    · exact h
    · split
      · refine NS.sched ?_ _ _ (.cond _) (by intro r hc; cases hc)
        exact h.congr rfl rfl rfl rfl rfl rfl
      · exact h.congr rfl rfl rfl rfl rfl rfl
  | ri =>
    simp only
    split
    · exact h
    · split
      · refine NS.sched ?_ _ _ (.cond _) (by intro r hc; cases hc)
        exact h.congr rfl rfl rfl rfl rfl rfl
      · exact h.congr rfl rfl rfl rfl rfl rfl

theorem NS.handle {s : CBelt} (h : NS s) (k : CKind) (hk : ∀ r, k ≠ .intr r) (hes : (s.handle k).everStalled = false) :
    NS (s.handle k) := by
  unfold CBelt.handle at hes ⊢
  cases k with
  | initM q => exact h.initM q
  | initD d =>
    simp only
    split
    · exact h
    · rename_i dp hd
      have := List.mem_of_find?_eq_some hd
      rw [h.noD] at this; cases this
  | tmo u => exact h.onTimeout u
  | shot w g => exact h.onShot w g
  | re g => exact h.onResume g
  | p1e => exact h.trigPut
  | cond u =>
    simp only at hes ⊢
    split
    · rename_i u' b hc
      simp only [hc] at hes
      split
      · rename_i hu
        simp only [hu, if_true] at hes
        exact h.bWake hes
      · exact h
    · exact h
  | intr r => exact absurd rfl (hk r)

theorem NS.ev {s : CBelt} (h : NS s) (hes : s.ev.everStalled = false) : NS s.ev := by
  unfold CBelt.ev at hes ⊢
  split
  · exact h
  · rename_i e0 rest hq
    simp only [hq] at hes
    have hmem0 : e0 ∈ s.queue := by rw [hq]; exact List.mem_cons_self
    have h0 : NS { s with queue := rest, now := max s.now e0.time } := by
      obtain ⟨a1, a2, a3, a4, a5, a6, a7⟩ := h
      refine ⟨?_, a2, a3, a4, a5, a6, a7⟩
      intro ev hev r; exact a1 ev (by rw [hq]; exact List.mem_cons_of_mem _ hev) r
    exact h0.handle e0.kind (fun r => h.noIntr e0 hmem0 r) hes

theorem NS.put {s : CBelt} (h : NS s) (p tid : Nat) (x : Item) : NS (s.put p tid x).1 := by
  unfold CBelt.put
  split
  · exact h
  · split
    · exact h
    · rename_i t _
      simp only
      split
      · have h5 : NS (CBelt.trigGet { ((({ ({ s with putRes := s.putRes.erase t } : CBelt) with items := s.items ++ [(⟨x, s.nput, s.now, 0, none, 0⟩ : CItem)], nput := s.nput + 1, entered := s.entered ++ [(⟨x, s.nput, s.now, 0, none, 0⟩ : CItem)] } : CBelt).updLevel).sched s.now true (.initM s.nput)) with procs := s.procs ++ [(⟨s.nput, x.id, .fresh, 0⟩ : MProc)], activeMove := dictSet s.activeMove x.id s.nput }) := by
          refine NS.trigGet ?_
          obtain ⟨a1, a2, a3, a4, a5, a6, a7⟩ := h
          refine ⟨?_, a2, a3, ?_, ?_, ?_, a7⟩
          · intro ev hev r
            rcases mem_insCEv.mp hev with rfl | hev
            · intro hc; cases hc
            · exact a1 ev hev r
          · intro p' hp' ph rm ist g hpc
            rcases List.mem_append.mp hp' with hp' | hp'
            · exact a4 p' hp' ph rm ist g hpc
            · simp at hp'; subst hp'; cases hpc
          · intro it hit
            rcases List.mem_append.mp hit with hit | hit
            · exact a5 it hit
            · simp at hit; subst hit; rfl
          · intro p' hp'
            rcases List.mem_append.mp hp' with hp' | hp'
            · exact a6 p' hp'
            · simp at hp'; subst hp'; rfl
        have notS : ∀ y : CBelt, NS y → ((y.st == .stalledAcc && y.cfg.acc) || (y.st == .stalledNon && !y.cfg.acc)) = false := by
          intro y hy
          have := hy.notStalled
          cases hst : y.st <;> simp_all [CState.stalled]
        split
        · split
          · have := notS _ h5
            split
            · rename_i hc; exact absurd (this.symm.trans hc) (by decide)
            · exact h5
          · have h6 := h5.iaTrig
            have := notS _ h6
            split
            · rename_i hc; exact absurd (this.symm.trans hc) (by decide)
            · exact h6
        · split
          · have := notS _ h5
            split
            · rename_i hc; exact absurd (this.symm.trans hc) (by decide)
            · exact h5
          · have h6 := h5.paTrig
            have := notS _ h6
            split
            · rename_i hc; exact absurd (this.symm.trans hc) (by decide)
            · exact h6
      · exact h.congr rfl rfl rfl rfl rfl rfl

theorem NS.get {s : CBelt} (h : NS s) (p tid : Nat) : NS (s.get p tid).1 := by
  unfold CBelt.get
  split
  · exact h
  · split
    · exact h
    · split
      · exact h
      · split
        · exact h.congr rfl rfl rfl rfl rfl rfl
        · simp only
          split
          · split
            · show NS (CBelt.trigPut _)
              exact NS.trigPut (h.congr rfl rfl rfl rfl rfl rfl)
            · show NS (CBelt.sched _ _ _ _)
              refine NS.gaTrig ?_
              show NS (CBelt.trigPut _)
              exact NS.trigPut (h.congr rfl rfl rfl rfl rfl rfl)
          · exact h.congr rfl rfl rfl rfl rfl rfl

theorem NS.cancelPut {s : CBelt} (h : NS s) (tid : Nat) : NS (s.cancelPut tid).1 := by
  unfold CBelt.cancelPut
  split
  · show NS (CBelt.trigPut _); exact NS.trigPut (h.congr rfl rfl rfl rfl rfl rfl)
  · split
    · show NS (CBelt.trigPut _); exact NS.trigPut (h.congr rfl rfl rfl rfl rfl rfl)
    · exact h

theorem NS.cancelGet {s : CBelt} (h : NS s) (tid : Nat) : NS (s.cancelGet tid).1 := by
  unfold CBelt.cancelGet
  split
  · show NS (CBelt.trigGet _); exact NS.trigGet (h.congr rfl rfl rfl rfl rfl rfl)
  · split
    · split
      · exact h.congr rfl rfl rfl rfl rfl rfl
      · split
        · exact h.congr rfl rfl rfl rfl rfl rfl
        · simp only
          split
          · show NS (CBelt.trigGet _); exact NS.trigGet (h.congr rfl rfl rfl rfl rfl rfl)
          · exact h.congr rfl rfl rfl rfl rfl rfl
    · exact h

/-- one operation: if afterwards the state machine still has never stalled, nothing was ever interrupted -/
theorem NS.step {s : CBelt} (h : NS s) (op : Op) (hes : (s.step op).1.everStalled = false) : NS (s.step op).1 := by
  unfold CBelt.step at hes ⊢
  have h' : NS { s with fired := [], newReady := [] } := h.congr rfl rfl rfl rfl rfl rfl
  cases op with
  | reservePut p => show NS (CBelt.trigPut _); exact NS.trigPut (h'.congr rfl rfl rfl rfl rfl rfl)
  | reserveGet p => show NS (CBelt.trigGet _); exact NS.trigGet (h'.congr rfl rfl rfl rfl rfl rfl)
  | put p t x => exact h'.put p t x
  | get p t => exact h'.get p t
  | cancelPut t => exact h'.cancelPut t
  | cancelGet t => exact h'.cancelGet t
  | adv dt =>
    simp only [CBelt.adv]
    split
    · split <;> exact h'.congr rfl rfl rfl rfl rfl rfl
    · exact h'.congr rfl rfl rfl rfl rfl rfl
  | ev => exact h'.ev hes
  | final => exact h'.congr rfl rfl rfl rfl rfl rfl

/-- along a run in which the state machine never stalls (the flag is clear after every operation) -/
theorem run_ns : ∀ (ops : List Op) (s : CBelt), NS s →
    (∀ k, k ≤ ops.length → (s.run (ops.take k)).everStalled = false) → NS (s.run ops) := by
  intro ops
  induction ops with
  | nil => intro s h _; exact h
  | cons op ops ih =>
    intro s h hk
    have h1 : (s.step op).1.everStalled = false := by
      have := hk 1 (by simp)
      simpa [CBelt.run] using this
    refine ih (s.step op).1 (h.step op h1) ?_
    intro k hkl
    have := hk (k + 1) (by simp; omega)
    simpa [CBelt.run] using this

end CBelt
end FsVerif
