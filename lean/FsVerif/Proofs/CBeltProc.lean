/-
Continuous conveyor store: `move_to_ready_items` never fails.  Every live move process has its item on the belt (`PI`), so
`items.index(item)` always finds it; with the capacity invariant the overflow guard never fires.  Holds in every reachable
state — every API call, every kernel event, interrupts / resumes and the state machine included.
-/
import FsVerif.Proofs.CBeltCons
namespace FsVerif
namespace CBelt

/-- every live move process has its item among the travelling items -/
def PI (s : CBelt) : Prop := ∀ p ∈ s.procs, ∃ it ∈ s.items, it.seq = p.q

/-- procs only lose members (by ordinal), items keep every ordinal -/
structure PF (s s' : CBelt) : Prop where
  procs : ∀ p ∈ s'.procs, ∃ p0 ∈ s.procs, p0.q = p.q
  items : ∀ it ∈ s.items, ∃ it' ∈ s'.items, it'.seq = it.seq

theorem PF.refl (s : CBelt) : PF s s := ⟨fun p h => ⟨p, h, rfl⟩, fun it h => ⟨it, h, rfl⟩⟩
theorem PF.trans {a b c : CBelt} (h1 : PF a b) (h2 : PF b c) : PF a c :=
  ⟨fun p hp => by obtain ⟨p1, h3, e3⟩ := h2.procs p hp; obtain ⟨p0, h4, e4⟩ := h1.procs p1 h3; exact ⟨p0, h4, e4.trans e3⟩,
   fun it hit => by obtain ⟨i1, h3, e3⟩ := h1.items it hit; obtain ⟨i2, h4, e4⟩ := h2.items i1 h3; exact ⟨i2, h4, e4.trans e3⟩⟩
theorem PF.of_eq {s s' : CBelt} (e1 : s'.procs = s.procs) (e2 : s'.items = s.items) : PF s s' :=
  ⟨fun p h => ⟨p, by rw [← e1]; exact h, rfl⟩, fun it h => ⟨it, by rw [e2]; exact h, rfl⟩⟩
theorem PF.fr {s s' : CBelt} (f : Fr s s') : PF s s' := PF.of_eq f.procs f.items

theorem PI.pf {s s' : CBelt} (h : PI s) (f : PF s s') : PI s' := by
  intro p hp
  obtain ⟨p0, h0, e0⟩ := f.procs p hp
  obtain ⟨it, hit, es⟩ := h p0 h0
  obtain ⟨it', hit', es'⟩ := f.items it hit
  exact ⟨it', hit', by rw [es', es, e0]⟩

theorem PF.setProc (s : CBelt) (q : Nat) (f : MProc → MProc) (hf : ∀ p, (f p).q = p.q) : PF s (s.setProc q f) := by
  refine ⟨?_, fun it h => ⟨it, h, rfl⟩⟩
  intro p hp
  simp only [CBelt.setProc, List.mem_map] at hp
  obtain ⟨p0, h0, e0⟩ := hp
  refine ⟨p0, h0, ?_⟩
  rw [← e0]; split
  · exact (hf p0).symm
  · rfl

theorem PF.setItem (s : CBelt) (q : Nat) (f : CItem → CItem) (hf : ∀ it, (f it).seq = it.seq) : PF s (s.setItem q f) := by
  refine ⟨fun p h => ⟨p, h, rfl⟩, ?_⟩
  intro it hit
  refine ⟨if it.seq == q then f it else it, ?_, ?_⟩
  · simp only [CBelt.setItem, List.mem_map]; exact ⟨it, hit, rfl⟩
  · split
    · exact hf it
    · rfl

theorem PF.endProc (s : CBelt) (p : MProc) : PF s (s.endProc p) := by
  refine ⟨?_, fun it h => ⟨it, h, rfl⟩⟩
  intro x hx
  simp only [CBelt.endProc, List.mem_filter] at hx
  exact ⟨x, hx.1, rfl⟩

theorem trigPut_pi (s : CBelt) : s.trigPut.procs = s.procs ∧ s.trigPut.items = s.items := by
  unfold CBelt.trigPut
  split
  · exact ⟨rfl, rfl⟩
  · split <;> exact ⟨rfl, rfl⟩

theorem trigGet_pi (s : CBelt) : s.trigGet.procs = s.procs ∧ s.trigGet.items = s.items := by
  unfold CBelt.trigGet
  split
  · exact ⟨rfl, rfl⟩
  · split
    · split <;> exact ⟨rfl, rfl⟩
    · exact ⟨rfl, rfl⟩

theorem PF.trigPut (s : CBelt) : PF s s.trigPut := PF.of_eq (trigPut_pi s).1 (trigPut_pi s).2
theorem PF.trigGet (s : CBelt) : PF s s.trigGet := PF.of_eq (trigGet_pi s).1 (trigGet_pi s).2

/-- goal-directed form: the processes of the new state come from old ones (same ordinal), every old item keeps its ordinal -/
theorem PI.of {s s' : CBelt} (h : PI s) (hp : ∀ p ∈ s'.procs, ∃ p0 ∈ s.procs, p0.q = p.q)
    (hi : ∀ it ∈ s.items, ∃ it' ∈ s'.items, it'.seq = it.seq) : PI s' := h.pf ⟨hp, hi⟩

/-- processes mapped by a pc / total update, items unchanged -/
macro "pi_setproc" h:term : tactic => `(tactic| (refine PI.of $h ?_ (fun it h => ⟨it, h, rfl⟩); intro x hx; simp only [CBelt.sched, CBelt.setProc, List.mem_map] at hx; obtain ⟨p0, h0, e0⟩ := hx; exact ⟨p0, h0, by rw [← e0]; split <;> rfl⟩))

/-- the arrival of a live process's item: the item is found and there is room (the two failure branches are dead) -/
theorem arrive_ok {s : CBelt} (h : PI s) (hr : RoomC s) {p : MProc} (hp : ∃ it ∈ s.items, it.seq = p.q) :
    ∃ e, s.items.find? (fun e => e.seq == p.q) = some e ∧ s.ready.length + (s.items.erase e).length < s.cfg.cap := by
  obtain ⟨it, hit, hs⟩ := hp
  cases hf : s.items.find? (fun e => e.seq == p.q) with
  | none =>
    exfalso
    have := List.find?_eq_none.mp hf it hit
    simp [hs] at this
  | some e =>
    refine ⟨e, rfl, ?_⟩
    have hm : e ∈ s.items := List.mem_of_find?_eq_some hf
    have hl := erase_len hm
    have := hr.room
    simp only [level] at this
    omega

theorem PI.arrive {s : CBelt} (h : PI s) (p : MProc) : PI (s.arrive p) := by
  unfold CBelt.arrive
  split
  · refine PI.pf (s := s.endProc p) (h.pf (PF.endProc s p)) (PF.of_eq rfl rfl)
  · rename_i e he
    have hes : e.seq = p.q := by have := List.find?_some he; simpa using this
    -- after the item has left: every process with another ordinal still has its item
    have key : ∀ (s1 : CBelt), s1.items = s.items.erase e → s1.procs = s.procs → PI (s1.endProc p) := by
      intro s1 e1 e2 x hx
      simp only [CBelt.endProc, List.mem_filter] at hx
      obtain ⟨hx1, hx2⟩ := hx
      rw [e2] at hx1
      obtain ⟨it, hit, hs⟩ := h x hx1
      refine ⟨it, ?_, hs⟩
      show it ∈ s1.items
      rw [e1]
      refine (List.mem_erase_of_ne ?_).mpr hit
      intro hc
      rw [hc, hes] at hs
      simp [hs] at hx2
    simp only
    split
    · split
      · refine key _ ?_ ?_
        · rw [(trigPut_pi _).2, (trigGet_pi _).2]; rfl
        · rw [(trigPut_pi _).1, (trigGet_pi _).1]; rfl
      · refine key _ ?_ ?_
        · rw [(trigPut_pi _).2, (trigGet_pi _).2]
        · rw [(trigPut_pi _).1, (trigGet_pi _).1]
    · refine PI.pf (s := CBelt.endProc _ p) (key { s with items := s.items.erase e, arrivals := s.arrivals ++ [({ q := p.q, t := s.now, ti := e.totalInt } : Arr)] } rfl rfl) (PF.of_eq rfl rfl)

theorem PI.startPhase {s : CBelt} (h : PI s) (p : MProc) (ph rem : Nat) : PI (s.startPhase p ph rem) := by
  unfold CBelt.startPhase
  split
  · pi_setproc h
  · split
    · simp only
      split
      · pi_setproc h
      · exact h.arrive p
    · exact h.arrive p

theorem PI.setItem' {s : CBelt} (h : PI s) (q : Nat) (f : CItem → CItem) (hf : ∀ it, (f it).seq = it.seq) : PI (s.setItem q f) :=
  h.pf (PF.setItem s q f hf)

theorem PI.initM {s : CBelt} (h : PI s) (q : Nat) : PI (s.initM q) := by
  unfold CBelt.initM
  split
  · exact h
  · refine PI.startPhase ?_ _ _ _
    exact h.setItem' q _ (fun _ => rfl)

theorem PI.onTimeout {s : CBelt} (h : PI s) (u : Nat) : PI (s.onTimeout u) := by
  unfold CBelt.onTimeout
  split
  · split
    · refine PI.startPhase ?_ _ _ _
      exact h.pf (PF.of_eq rfl rfl)
    · exact h.startPhase _ _ _
  · split
    · simp only
      refine PI.pf (s := CBelt.interruptItem _ _) ?_ (PF.of_eq rfl rfl)
      refine PI.pf ?_ (PF.fr (Fr.interruptItem _ _))
      exact h.pf (PF.of_eq rfl rfl)
    · exact h

theorem PI.onInterrupt {s : CBelt} (h : PI s) (r : PRef) : PI (s.onInterrupt r) := by
  unfold CBelt.onInterrupt
  cases r with
  | delayed d =>
    simp only
    split
    · exact h
    · split
      · exact h
      · exact h.pf (PF.of_eq rfl rfl)
  | move q =>
    simp only
    split
    · exact h
    · split
      · exact h
      · have h1 : PI (s.setItem q (fun it => { it with intStart := some s.now })) := h.setItem' q _ (fun _ => rfl)
        refine PI.of h1 ?_ (fun it hit => ⟨it, hit, rfl⟩)
        intro x hx
        simp only [CBelt.setProc, List.mem_map] at hx
        obtain ⟨p0, h0, e0⟩ := hx
        exact ⟨p0, h0, by rw [← e0]; split <;> rfl⟩
      · refine PI.pf (s := s.endProc _) (h.pf (PF.endProc s _)) (PF.of_eq rfl rfl)

theorem PI.onResume {s : CBelt} (h : PI s) (g : Nat) : PI (s.onResume g) := by
  unfold CBelt.onResume
  generalize s.waitOrder = l
  induction l generalizing s with
  | nil => exact h
  | cons q qs ih =>
    simp only [List.foldl_cons]
    apply ih
    split
    · exact h
    · split
      · split
        · refine PI.startPhase ?_ _ _ _
          refine PI.pf (s := s.setItem q _) ?_ (PF.of_eq rfl rfl)
          exact h.setItem' q _ (fun _ => rfl)
        · exact h
      · exact h

theorem PI.handle {s : CBelt} (h : PI s) (k : CKind) : PI (s.handle k) := by
  unfold CBelt.handle
  cases k with
  | initM q => exact h.initM q
  | initD d =>
    simp only
    split
    · exact h
    · exact h.pf (PF.of_eq rfl rfl)
  | tmo u => exact h.onTimeout u
  | shot w g => exact h.pf (PF.fr (Fr.onShot s w g))
  | re g => exact h.onResume g
  | p1e => exact h.pf (PF.trigPut s)
  | cond u =>
    simp only
    split
    · split
      · exact h.pf (PF.fr (Fr.bWake s))
      · exact h
    · exact h
  | intr r => exact h.onInterrupt r

theorem PI.put {s : CBelt} (h : PI s) (p tid : Nat) (x : Item) : PI (s.put p tid x).1 := by
  unfold CBelt.put
  split
  · exact h
  · split
    · exact h
    · simp only
      split
      · -- the new process comes with its item
        have base : ∀ s4 : CBelt, s4.items = s.items ++ [({ item := x, seq := s.nput, entry := s.now } : CItem)] →
            s4.procs = s.procs ++ [({ q := s.nput, itemId := x.id } : MProc)] → PI s4 := by
          intro s4 e1 e2 pr hpr
          rw [e2] at hpr
          rcases List.mem_append.mp hpr with h1 | h1
          · obtain ⟨it, hit, hs⟩ := h pr h1
            exact ⟨it, by rw [e1]; exact List.mem_append_left _ hit, hs⟩
          · rw [List.mem_singleton] at h1; subst h1
            exact ⟨_, by rw [e1]; exact List.mem_append_right _ (List.mem_singleton.mpr rfl), rfl⟩
        have h5 : ∀ s4 : CBelt, s4.items = s.items ++ [({ item := x, seq := s.nput, entry := s.now } : CItem)] →
            s4.procs = s.procs ++ [({ q := s.nput, itemId := x.id } : MProc)] → PI s4.trigGet :=
          fun s4 e1 e2 => (base s4 e1 e2).pf (PF.trigGet s4)
        split
        · split
          · split
            · refine PI.pf ?_ (PF.fr (Fr.handleNew _ _))
              exact h5 _ rfl rfl
            · exact h5 _ rfl rfl
          · split
            · refine PI.pf ?_ (PF.fr (Fr.handleNew _ _))
              refine PI.pf (s := CBelt.trigGet _) ?_ (PF.of_eq rfl rfl)
              exact h5 _ rfl rfl
            · refine PI.pf (s := CBelt.trigGet _) ?_ (PF.of_eq rfl rfl)
              exact h5 _ rfl rfl
        · split
          · split
            · refine PI.pf ?_ (PF.fr (Fr.handleNew _ _))
              exact h5 _ rfl rfl
            · exact h5 _ rfl rfl
          · split
            · refine PI.pf ?_ (PF.fr (Fr.handleNew _ _))
              refine PI.pf (s := CBelt.trigGet _) ?_ (PF.of_eq rfl rfl)
              exact h5 _ rfl rfl
            · refine PI.pf (s := CBelt.trigGet _) ?_ (PF.of_eq rfl rfl)
              exact h5 _ rfl rfl
      · exact h.pf (PF.of_eq rfl rfl)

macro "pi_frame" : tactic => `(tactic| (repeat' split) <;> first
  | exact ⟨rfl, rfl⟩
  | (refine ⟨?_, ?_⟩ <;> first
      | rfl
      | (rw [(trigPut_pi _).1]; done)
      | (rw [(trigPut_pi _).2]; done)
      | (rw [(trigGet_pi _).1]; done)
      | (rw [(trigGet_pi _).2]; done)
      | (show (CBelt.trigPut _).procs = _; rw [(trigPut_pi _).1]; done)
      | (show (CBelt.trigPut _).items = _; rw [(trigPut_pi _).2]; done)
      | (show (CBelt.trigGet _).procs = _; rw [(trigGet_pi _).1]; done)
      | (show (CBelt.trigGet _).items = _; rw [(trigGet_pi _).2]; done)))

theorem get_pi (s : CBelt) (p tid : Nat) : (s.get p tid).1.procs = s.procs ∧ (s.get p tid).1.items = s.items := by
  unfold CBelt.get
  split
  · exact ⟨rfl, rfl⟩
  · split
    · exact ⟨rfl, rfl⟩
    · split
      · exact ⟨rfl, rfl⟩
      · split
        · exact ⟨rfl, rfl⟩
        · simp only
          split
          · split
            · refine ⟨?_, ?_⟩
              · show (CBelt.trigPut _).procs = s.procs; rw [(trigPut_pi _).1]; rfl
              · show (CBelt.trigPut _).items = s.items; rw [(trigPut_pi _).2]; rfl
            · refine ⟨?_, ?_⟩
              · show (CBelt.trigPut _).procs = s.procs; rw [(trigPut_pi _).1]; rfl
              · show (CBelt.trigPut _).items = s.items; rw [(trigPut_pi _).2]; rfl
          · exact ⟨rfl, rfl⟩

theorem cancelPut_pi (s : CBelt) (tid : Nat) : (s.cancelPut tid).1.procs = s.procs ∧ (s.cancelPut tid).1.items = s.items := by
  unfold CBelt.cancelPut; pi_frame

theorem cancelGet_pi (s : CBelt) (tid : Nat) : (s.cancelGet tid).1.procs = s.procs ∧ (s.cancelGet tid).1.items = s.items := by
  unfold CBelt.cancelGet
  split
  · refine ⟨?_, ?_⟩
    · show (CBelt.trigGet _).procs = s.procs; rw [(trigGet_pi _).1]
    · show (CBelt.trigGet _).items = s.items; rw [(trigGet_pi _).2]
  · split
    · split
      · exact ⟨rfl, rfl⟩
      · split
        · exact ⟨rfl, rfl⟩
        · simp only
          split
          · refine ⟨?_, ?_⟩
            · show (CBelt.trigGet _).procs = s.procs; rw [(trigGet_pi _).1]
            · show (CBelt.trigGet _).items = s.items; rw [(trigGet_pi _).2]
          · exact ⟨rfl, rfl⟩
    · exact ⟨rfl, rfl⟩

theorem reservePut_pi (s : CBelt) (p : Nat) : (s.reservePut p).1.procs = s.procs ∧ (s.reservePut p).1.items = s.items := by
  unfold CBelt.reservePut; pi_frame

theorem reserveGet_pi (s : CBelt) (p : Nat) : (s.reserveGet p).1.procs = s.procs ∧ (s.reserveGet p).1.items = s.items := by
  unfold CBelt.reserveGet; pi_frame

theorem PI.step {s : CBelt} (h : PI s) (op : Op) : PI (s.step op).1 := by
  have h' : PI { s with fired := [], newReady := [] } := h.pf (PF.of_eq rfl rfl)
  unfold CBelt.step
  cases op with
  | reservePut p => exact h'.pf (PF.of_eq (reservePut_pi _ p).1 (reservePut_pi _ p).2)
  | reserveGet p => exact h'.pf (PF.of_eq (reserveGet_pi _ p).1 (reserveGet_pi _ p).2)
  | put p t x => exact h'.put p t x
  | get p t => exact h'.pf (PF.of_eq (get_pi _ p t).1 (get_pi _ p t).2)
  | cancelPut t => exact h'.pf (PF.of_eq (cancelPut_pi _ t).1 (cancelPut_pi _ t).2)
  | cancelGet t => exact h'.pf (PF.of_eq (cancelGet_pi _ t).1 (cancelGet_pi _ t).2)
  | adv dt =>
    simp only [CBelt.adv]
    repeat' split
    all_goals exact h'.pf (PF.of_eq rfl rfl)
  | ev =>
    simp only [CBelt.ev]
    split
    · exact h'
    · refine PI.handle ?_ _
      exact h'.pf (PF.of_eq rfl rfl)
  | final => exact h'.pf (PF.of_eq rfl rfl)

theorem init_pi (cfg : CCfg) : PI (init cfg) := by intro p hp; simp [init] at hp

theorem run_pi (ops : List Op) : ∀ (s : CBelt), PI s → PI (s.run ops) := by
  induction ops with
  | nil => intro s h; exact h
  | cons op ops ih => intro s h; exact ih _ (h.step op)

end CBelt
end FsVerif
