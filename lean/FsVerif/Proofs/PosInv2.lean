/-
`Inv2` (retrieval wake-up, FIFO discipline, statistics, timers) is inductive, given `Inv`.
-/
import FsVerif.Proofs.PosFifo
namespace FsVerif
namespace PosStore

theorem init_inv2 (cfg : PosCfg) : Inv2 (init cfg) := by
  refine ⟨?_, ?_, ?_, ?_⟩
  · intro _ h; simp [init] at h
  · constructor <;> simp [init, seqs]
  · constructor <;> simp [init]
  · constructor <;> simp [init]

theorem clearFired_inv2 {s : PosStore} (h : Inv2 s) : Inv2 { s with fired := [] } := by
  obtain ⟨h1, h2, h3, h4⟩ := h
  exact ⟨h1, fifo_frame h2 rfl rfl rfl rfl, stat_frame h3 rfl rfl rfl rfl rfl rfl rfl, timers_frame h4 rfl rfl rfl⟩

theorem trigPut_inv2 {s : PosStore} (h : Inv2 s) : Inv2 s.trigPut :=
  ⟨wakeGet_frame h.wakeGet (by simp) (by simp) (by simp) (by simp), trigPut_fifo h.fifo, trigPut_stat h.stat,
   timers_frame h.timers (by simp) (by simp) (by simp)⟩

/-- `trigGet` on a state whose retrieval side is already settled. -/
theorem trigGet_inv2 {s : PosStore} (hi : Inv s) (h : Inv2 s) : Inv2 s.trigGet := by
  refine ⟨trigGet_wakeGet ?_, trigGet_fifo h.fifo (bind_len hi.bind), trigGet_stat h.stat,
    timers_frame h.timers (by simp) (by simp) (by simp)⟩
  intro hf t q hq _
  have := h.wakeGet hf (by rw [hq]; simp); omega

theorem reservePut_inv2 {s : PosStore} (p pr) (h : Inv2 s) : Inv2 (s.reservePut p pr).1 := by
  unfold reservePut
  apply trigPut_inv2
  obtain ⟨h1, h2, h3, h4⟩ := h
  exact ⟨h1, fifo_frame h2 rfl rfl rfl rfl, stat_frame h3 rfl rfl rfl rfl rfl rfl rfl, timers_frame h4 rfl rfl rfl⟩

theorem reserveGet_inv2 {s : PosStore} (p pr f) (hi : Inv s) (h : Inv2 s) : Inv2 (s.reserveGet p pr f).1 := by
  unfold reserveGet
  simp only
  rw [stableSort_append_one hi.sorted.2]
  obtain ⟨h1, h2, h3, h4⟩ := h
  refine ⟨trigGet_wakeGet ?_, trigGet_fifo (fifo_frame h2 rfl rfl rfl rfl) (bind_len hi.bind),
    trigGet_stat (stat_frame h3 rfl rfl rfl rfl rfl rfl rfl), timers_frame h4 (by simp) (by simp) (by simp)⟩
  intro hf t q hq hne
  simp only at hq hf ⊢
  by_cases hs : s.getQ = []
  · rw [hs] at hq; simp [insSorted] at hq; exact absurd hq.2 hne
  · have := h1 hf hs; omega

theorem put_inv2 {s : PosStore} (p tid x) (hi : Inv s) (h : Inv2 s) : Inv2 (s.put p tid x).1 := by
  rcases put_cases s p tid x with ⟨he, _⟩ | ⟨t, ht, _, _, ⟨hroom, he⟩ | ⟨hroom, he⟩⟩
  · rw [he]; exact h
  · rw [he]; simp only
    obtain ⟨h1, h2, h3, h4⟩ := h
    have hb := hi.bind.2
    have hf0 : FifoOK ((s.dropPutRes t).addTimer) :=
      fifo_frame h2 (by simp [dropPutRes]) (by simp [dropPutRes]) (by simp [dropPutRes]) (by simp [dropPutRes])
    have hf1 : FifoOK (((s.dropPutRes t).addTimer).addItem x) :=
      addItem_fifo x hf0 (by simpa [dropPutRes] using hb)
    have ht1 : TimersOK (((s.dropPutRes t).addTimer).addItem x) :=
      timers_frame (addTimer_timers (timers_frame h4 rfl rfl rfl : TimersOK (s.dropPutRes t))) (by simp [addItem]) (by simp [addItem]) (by simp [addItem])
    refine ⟨?_, updLevel_fifo (trigGet_fifo hf1 ?_), updLevel_stat ?_ ?_, timers_frame ht1 (by simp) (by simp) (by simp)⟩
    · refine wakeGet_frame (s := (((s.dropPutRes t).addTimer).addItem x).trigGet) (trigGet_wakeGet ?_) (by simp) (by simp) (by simp) (by simp)
      intro hf t' q hq _
      simp only [addItem, dropPutRes, addTimer_cfg, addTimer_getQ, addTimer_items, addTimer_getRes] at hq hf ⊢
      have := h1 hf (by rw [hq]; simp)
      simp; omega
    · simp [addItem, dropPutRes]; exact bind_len hi.bind
    · simp [addItem, dropPutRes]; exact h3.change
    · intro hf
      simp only [trigGet_cfg, addItem, dropPutRes, addTimer_cfg] at hf
      simp [addItem, dropPutRes]; exact h3.integral hf
  · rw [he]; simp only
    obtain ⟨h1, h2, h3, h4⟩ := h
    exact ⟨wakeGet_frame h1 (by simp [dropPutRes]) (by simp [dropPutRes]) (by simp [dropPutRes]) (by simp [dropPutRes]),
      fifo_frame h2 (by simp [dropPutRes]) (by simp [dropPutRes]) (by simp [dropPutRes]) (by simp [dropPutRes]),
      stat_frame h3 (by simp [dropPutRes]) (by simp [dropPutRes]) (by simp [dropPutRes]) (by simp [dropPutRes]) (by simp [dropPutRes]) (by simp [dropPutRes]) (by simp [dropPutRes]),
      addTimer_timers (timers_frame h4 rfl rfl rfl : TimersOK (s.dropPutRes t))⟩

theorem get_inv2 {s : PosStore} (p tid) (hi : Inv s) (h : Inv2 s) : Inv2 (s.get p tid).1 := by
  have hlen := bind_len hi.bind
  have hb := hi.bind.2
  rcases get_cases s p tid with ⟨he, _⟩ | ⟨t, ht, _, _, ⟨hidx, he⟩ | ⟨hidx, hnone, he⟩ | ⟨e, hidx, hx, he⟩⟩
  · rw [he]; exact h
  · rw [he]; exact h
  · rw [he]; simp only
    obtain ⟨h1, h2, h3, h4⟩ := h
    exfalso
    have hlt : s.resEv.idxOf t < s.items.length := by omega
    rw [List.getElem?_eq_getElem hlt] at hnone
    simp at hnone
  · rw [he]; simp only
    obtain ⟨h1, h2, h3, h4⟩ := h
    have hii : s.resEv.idxOf t < s.items.length := by omega
    have hel := length_eraseIdx_lt hii
    have hgl : (s.getRes.erase t).length + 1 = s.getRes.length := by
      have : 0 < s.getRes.length := List.length_pos_of_mem ht
      rw [List.length_erase_of_mem ht]; omega
    have hf1 : FifoOK ((s.dropGetRes t).takeItem (s.resEv.idxOf t) e.item) :=
      takeItem_fifo _ _ (fifo_frame h2 rfl rfl rfl rfl) (by simpa [dropGetRes] using hidx) (by simpa [dropGetRes] using hb)
    refine ⟨?_, updLevel_fifo (trigPut_fifo hf1), updLevel_stat ?_ ?_, timers_frame h4 (by simp [takeItem, dropGetRes]) (by simp [takeItem, dropGetRes]) (by simp [takeItem, dropGetRes])⟩
    · intro hf hne
      simp only [updLevel_cfg, trigPut_cfg, updLevel_getQ, trigPut_getQ, updLevel_items, trigPut_items, updLevel_getRes,
        trigPut_getRes, takeItem, dropGetRes] at hf hne ⊢
      have := h1 hf hne; omega
    · simp [takeItem, dropGetRes]; exact h3.change
    · intro hf
      simp only [trigPut_cfg, takeItem, dropGetRes] at hf
      simp [takeItem, dropGetRes]; exact h3.integral hf

theorem cancelPut_inv2 {s : PosStore} (tid) (h : Inv2 s) : Inv2 (s.cancelPut tid).1 := by
  obtain ⟨h1, h2, h3, h4⟩ := h
  unfold cancelPut
  split
  · exact trigPut_inv2 ⟨h1, fifo_frame h2 rfl rfl rfl rfl, stat_frame h3 rfl rfl rfl rfl rfl rfl rfl, timers_frame h4 rfl rfl rfl⟩
  · split
    · exact trigPut_inv2 ⟨h1, fifo_frame h2 rfl rfl rfl rfl, stat_frame h3 rfl rfl rfl rfl rfl rfl rfl, timers_frame h4 rfl rfl rfl⟩
    · exact ⟨h1, h2, h3, h4⟩

theorem cancelGet_inv2 {s : PosStore} (tid) (hi : Inv s) (h : Inv2 s) : Inv2 (s.cancelGet tid).1 := by
  obtain ⟨h1, h2, h3, h4⟩ := h
  have hlen := bind_len hi.bind
  have hb := hi.bind.2
  unfold cancelGet
  split
  · rename_i t hf
    simp only
    refine ⟨trigGet_wakeGet ?_, trigGet_fifo (fifo_frame h2 rfl rfl rfl rfl) hlen,
      trigGet_stat (stat_frame h3 rfl rfl rfl rfl rfl rfl rfl), timers_frame h4 (by simp) (by simp) (by simp)⟩
    intro hf t' q hq _
    simp only at hq hf ⊢
    have hne : s.getQ ≠ [] := List.ne_nil_of_mem (findTok_some ‹_›).1
    have := h1 hf hne; omega
  · split
    · rename_i t hf
      have ht := (findTok_some hf).1
      have hte : t ∈ s.resEv := hi.bind.1.mem_iff.mpr ht
      have hidx : s.resEv.idxOf t < s.resEv.length := List.idxOf_lt_length_of_mem hte
      have hii : s.resEv.idxOf t < s.items.length := by omega
      split
      · omega
      · split
        · rename_i hnone
          rw [List.getElem?_eq_getElem hii] at hnone
          simp at hnone
        · rename_i it hx
          simp only
          have hgl : (s.getRes.erase t).length + 1 = s.getRes.length := by
            have : 0 < s.getRes.length := List.length_pos_of_mem ht
            rw [List.length_erase_of_mem ht]; omega
          have hel := length_eraseIdx_lt hii
          have hrl := length_eraseIdx_lt hidx
          have hf1 : FifoOK ((s.dropGetRes t).releaseItem (s.resEv.idxOf t) it) :=
            releaseItem_fifo _ _ (fifo_frame h2 rfl rfl rfl rfl) (by simpa [dropGetRes] using hidx)
              (by simpa [dropGetRes] using hb) (by simpa [dropGetRes] using hx)
          refine ⟨trigGet_wakeGet ?_, trigGet_fifo hf1 ?_, trigGet_stat (stat_frame h3 ?_ ?_ ?_ ?_ ?_ ?_ ?_),
            timers_frame h4 (by simp [releaseItem, dropGetRes]) (by simp [releaseItem, dropGetRes]) (by simp [releaseItem, dropGetRes])⟩
          · intro hf' t' q hq _
            simp only [releaseItem, dropGetRes, pyInsert_length] at hq hf' ⊢
            have := h1 hf' (by rw [hq]; simp); omega
          · simp only [releaseItem, dropGetRes]; omega
          all_goals simp [releaseItem, dropGetRes]
          omega
    · exact ⟨h1, h2, h3, h4⟩

/-- the part of `Inv2` that does not mention the timer queue -/
structure Core (s : PosStore) : Prop where
  wakeGet : WakeGetOK s
  fifo : FifoOK s
  stat : StatOK s

theorem trigGet_core {s : PosStore} (hi : Inv s) (h : Core s) : Core s.trigGet := by
  refine ⟨trigGet_wakeGet ?_, trigGet_fifo h.fifo (bind_len hi.bind), trigGet_stat h.stat⟩
  intro hf t q hq _
  have := h.wakeGet hf (by rw [hq]; simp); omega

theorem setNow_core {s : PosStore} {d : Nat} (h : Core s) (hd : s.now ≤ d) : Core (s.setNow d) :=
  ⟨wakeGet_frame h.wakeGet rfl rfl rfl rfl, fifo_frame h.fifo rfl rfl rfl rfl, setNow_stat h.stat hd⟩

theorem fireAll_core (ds : List Nat) {s : PosStore} (hi : Inv s) (h : Core s) (hsorted : ds.Pairwise (· ≤ ·))
    (hd : ∀ d ∈ ds, s.now ≤ d) : Core (fireAll ds s) := by
  induction ds generalizing s with
  | nil => exact h
  | cons d ds ih =>
    have hp := List.pairwise_cons.mp hsorted
    have h1 : s.now ≤ d := hd d (List.mem_cons_self)
    exact ih (trigGet_inv (setNow_inv d hi)) (trigGet_core (setNow_inv d hi) (setNow_core h h1)) hp.2
      (by intro d' hd'; simp [setNow]; exact hp.1 d' hd')

theorem setTimers_core {s : PosStore} (l : List Nat) (h : Core s) : Core { s with timers := l } :=
  ⟨wakeGet_frame h.wakeGet rfl rfl rfl rfl, fifo_frame h.fifo rfl rfl rfl rfl,
   stat_frame h.stat rfl rfl rfl rfl rfl rfl rfl⟩

theorem adv_inv2 {s : PosStore} (dt) (hi : Inv s) (h : Inv2 s) : Inv2 (s.adv dt) := by
  unfold adv
  split
  · exact h
  · obtain ⟨h1, h2, h3, h4⟩ := h
    have hsub : (s.timers.filter (· < s.now + dt)).Sublist s.timers := List.filter_sublist
    have hsorted : (s.timers.filter (· < s.now + dt)).Pairwise (· ≤ ·) := h4.sorted.sublist hsub
    have hge : ∀ d ∈ s.timers.filter (· < s.now + dt), s.now ≤ d := fun d hd => h4.future d (hsub.subset hd)
    have hc := fireAll_core _ (setTimers_inv (s.timers.filter (fun d => !(d < s.now + dt))) hi)
      (setTimers_core _ ⟨h1, h2, h3⟩) hsorted hge
    have hle := fireAll_now_le (s.timers.filter (· < s.now + dt))
      { s with timers := s.timers.filter (fun d => !(d < s.now + dt)) } (s.now + dt) (by simp)
      (by intro d hd; have := (List.mem_filter.mp hd).2; simp at this; omega)
    have hc' := setNow_core hc hle
    refine ⟨hc'.wakeGet, hc'.fifo, hc'.stat, ?_⟩
    constructor
    · simp only [setNow, fireAll_timers]
      exact h4.sorted.sublist List.filter_sublist
    · intro d hd
      simp only [setNow, fireAll_timers] at hd ⊢
      have := (List.mem_filter.mp hd).2; simp at this; omega
    · intro d hd
      simp only [setNow, fireAll_timers, fireAll_cfg] at hd ⊢
      have := h4.bounded d (List.mem_filter.mp hd).1; omega

theorem settle_inv2 {s : PosStore} (hi : Inv s) (h : Inv2 s) : Inv2 s.settle := by
  unfold settle
  obtain ⟨h1, h2, h3, h4⟩ := h
  have hsorted : ((s.timers.filter (· ≤ s.now)).map fun _ => s.now).Pairwise (· ≤ ·) := by
    rw [List.pairwise_map]; exact List.pairwise_of_forall (fun _ _ => Nat.le_refl _)
  have hge : ∀ d ∈ (s.timers.filter (· ≤ s.now)).map (fun _ => s.now), s.now ≤ d := by
    intro d hd; obtain ⟨_, _, rfl⟩ := List.mem_map.mp hd; exact Nat.le_refl _
  have hc := fireAll_core _ (setTimers_inv (s.timers.filter (fun d => !(d ≤ s.now))) hi)
    (setTimers_core _ ⟨h1, h2, h3⟩) hsorted hge
  have hle := fireAll_now_le ((s.timers.filter (· ≤ s.now)).map fun _ => s.now)
      { s with timers := s.timers.filter (fun d => !(d ≤ s.now)) } s.now (by simp)
      (by intro d hd; obtain ⟨_, _, rfl⟩ := List.mem_map.mp hd; exact Nat.le_refl _)
  have hge' := fireAll_now_ge ((s.timers.filter (· ≤ s.now)).map fun _ => s.now)
      { s with timers := s.timers.filter (fun d => !(d ≤ s.now)) } hsorted hge
  have hnow : (fireAll ((s.timers.filter (· ≤ s.now)).map fun _ => s.now)
      { s with timers := s.timers.filter (fun d => !(d ≤ s.now)) }).now = s.now := by
    simp only at hle hge'; omega
  refine ⟨hc.wakeGet, hc.fifo, hc.stat, ?_⟩
  constructor
  · simp only [fireAll_timers]; exact h4.sorted.sublist List.filter_sublist
  · intro d hd
    simp only [fireAll_timers] at hd
    rw [hnow]; exact h4.future d (List.mem_filter.mp hd).1
  · intro d hd
    simp only [fireAll_timers, fireAll_cfg] at hd ⊢
    rw [hnow]; exact h4.bounded d (List.mem_filter.mp hd).1

theorem kstepAux_inv2 (n : Nat) {s : PosStore} (hi : Inv s) (h : Inv2 s) : Inv2 (kstepAux n s) := by
  induction n generalizing s with
  | zero => exact h
  | succ n ih =>
    unfold kstepAux
    split
    · exact h
    · rename_i d ds hts
      split
      · simp only
        obtain ⟨h1, h2, h3, h4⟩ := h
        have hp : ds.Pairwise (· ≤ ·) := by have := h4.sorted; rw [hts] at this; exact (List.pairwise_cons.mp this).2
        have h2' : Inv2 ({ s with timers := ds }).trigGet := by
          have hc := trigGet_core (setTimers_inv ds hi) (setTimers_core ds ⟨h1, h2, h3⟩)
          refine ⟨hc.wakeGet, hc.fifo, hc.stat, ?_⟩
          constructor
          · simpa using hp
          · intro x hx; simp at hx ⊢; exact h4.future x (by rw [hts]; exact List.mem_cons_of_mem _ hx)
          · intro x hx; simp at hx ⊢; exact h4.bounded x (by rw [hts]; exact List.mem_cons_of_mem _ hx)
        split
        · exact ih (trigGet_inv (setTimers_inv ds hi)) h2'
        · exact h2'
      · exact h

theorem step_inv2 {s : PosStore} (op : Op) (hi : Inv s) (h : Inv2 s) : Inv2 (s.step op).1 := by
  have hi' := clearFired_inv hi
  have h' := clearFired_inv2 h
  unfold step
  cases op with
  | reservePut p pr => exact reservePut_inv2 p pr h'
  | reserveGet p pr f => exact reserveGet_inv2 p pr f hi' h'
  | put p t x => exact put_inv2 p t x hi' h'
  | get p t => exact get_inv2 p t hi' h'
  | cancelPut t => exact cancelPut_inv2 t h'
  | cancelGet t => exact cancelGet_inv2 t hi' h'
  | adv dt => exact adv_inv2 dt hi' h'
  | settle => exact settle_inv2 hi' h'
  | kstep => exact kstepAux_inv2 _ hi' h'

theorem run_inv2 (ops : List Op) {s : PosStore} (hi : Inv s) (h : Inv2 s) : Inv2 (run s ops) := by
  induction ops generalizing s with
  | nil => exact h
  | cons op ops ih => exact ih (step_inv op hi) (step_inv2 op hi h)

theorem reachable_inv2 {s : PosStore} (h : Reachable s) : Inv2 s := by
  obtain ⟨cfg, ops, rfl⟩ := h
  exact run_inv2 ops (init_inv cfg) (init_inv2 cfg)

end PosStore
end FsVerif
