/-
Continuous-conveyor model, travel-time invariant: item attribute updates, interrupt, arrival, start of a phase.
-/
import FsVerif.Proofs.CBeltTime2
namespace FsVerif
namespace CBelt

theorem TIg.weaken {s : CBelt} (h : TIg none s) (q : Nat) : TIg (some q) s := by
  obtain ⟨a1, a2, a3, a4, a5, a6, a7, a8, a9, a10, a16, a11, a12, a13, a14, a15⟩ := h
  exact ⟨a1, a2, a3, a4, a5, a6, a7, a8, a9, fun p hp _ => a10 p hp (by simp), a16, a11, a12, a13, a14, a15⟩

def updItem (q : Nat) (f : CItem → CItem) (it : CItem) : CItem := if it.seq == q then f it else it

theorem updItem_of_ne {q : Nat} {f : CItem → CItem} {it : CItem} (h : it.seq ≠ q) : updItem q f it = it := by
  unfold updItem; simp [h]

/-- the attributes of the items of an exempt process may change as long as ordinal and entry time stay -/
theorem TIg.setItemEx {s : CBelt} {q : Nat} (h : TIg (some q) s) (f : CItem → CItem)
    (hf : ∀ it, (f it).seq = it.seq ∧ (f it).entry = it.entry) :
    TIg (some q) { s with items := s.items.map (updItem q f) } := by
  obtain ⟨a1, a2, a3, a4, a5, a6, a7, a8, a9, a10, a16, a11, a12, a13, a14, a15⟩ := h
  have hkeep : ∀ it, (updItem q f it).seq = it.seq ∧ (updItem q f it).entry = it.entry := by
    intro it; unfold updItem; split
    · exact hf it
    · exact ⟨rfl, rfl⟩
  have hmem : ∀ it', it' ∈ s.items.map (updItem q f) → ∃ it ∈ s.items, it' = updItem q f it := by
    intro it' h'; obtain ⟨it, hit, rfl⟩ := List.mem_map.mp h'; exact ⟨it, hit, rfl⟩
  refine ⟨a1, a2, a3, a4, a5, ?_, a7, a8, ?_, ?_, a16, a11, a12, ?_, a14, a15⟩
  · intro ev hev q' hk it' hit' hs
    obtain ⟨it, hit, rfl⟩ := hmem it' hit'
    rw [(hkeep it).1] at hs; rw [(hkeep it).2]
    exact a6 ev hev q' hk it hit hs
  · intro it' hit'
    obtain ⟨it, hit, rfl⟩ := hmem it' hit'
    rw [(hkeep it).1]; exact a9 it hit
  · intro p hp hx it' hit' hs
    obtain ⟨it, hit, rfl⟩ := hmem it' hit'
    rw [(hkeep it).1] at hs
    have hne : it.seq ≠ q := by
      intro hc; apply hx; rw [← hs, hc]
    rw [updItem_of_ne hne]
    exact (a10 p hp hx it hit hs).mono rfl (Nat.le_refl _) (fun ev hev _ => hev)
  · intro it' hit'
    obtain ⟨it, hit, rfl⟩ := hmem it' hit'
    rw [(hkeep it).1, (hkeep it).2]; exact a13 it hit

/-- an interrupted process waits for the resume event with exactly the travel it had left -/
theorem TIg.waitPc {s : CBelt} {q : Nat} (h : TIg (some q) s) (ph rem ist g : Nat)
    (hit : ∀ it ∈ s.items, it.seq = q → it.intStart = some ist ∧ ist + rem = it.entry + it.totalInt + target s.cfg ph ∧
      (∀ p ∈ s.procs, p.q = q → p.total = it.totalInt) ∧ ist ≤ s.now ∧ (ph = 1 ∨ ph = 2)) :
    TIg none { s with procs := s.procs.map (updPc q (.wait ph rem ist g) none) } := by
  obtain ⟨a1, a2, a3, a4, a5, a6, a7, a8, a9, a10, a16, a11, a12, a13, a14, a15⟩ := h
  have hmem : ∀ p', p' ∈ s.procs.map (updPc q (.wait ph rem ist g) none) →
      ∃ p ∈ s.procs, p' = updPc q (.wait ph rem ist g) none p := by
    intro p' hp'; obtain ⟨p, hp, rfl⟩ := List.mem_map.mp hp'; exact ⟨p, hp, rfl⟩
  refine ⟨a1, a2, a3, a4, a5, a6, ?_, pairwise_map_q _ (updPc_q _ _ _) a8, a9, ?_, ?_, ?_, ?_, a13, a14, a15⟩
  · intro p' hp'
    obtain ⟨p, hp, rfl⟩ := hmem p' hp'
    rw [updPc_q]; exact a7 p hp
  · intro p' hp' _ it hit' hs
    obtain ⟨p, hp, rfl⟩ := hmem p' hp'
    rw [updPc_q] at hs
    by_cases hq : p.q = q
    · obtain ⟨hpc, htot⟩ := updPc_of_eq (pc := .wait ph rem ist g) (tot := none) hq
      obtain ⟨h1, h2, h3, h4, hph⟩ := hit it hit' (by rw [hs, hq])
      unfold PcOK
      rw [hpc]
      simp only
      exact ⟨h1, h2, by rw [htot]; exact h3 p hp hq, hph, h4⟩
    · rw [updPc_of_ne hq]
      have hne : (some q : Option Nat) ≠ some p.q := by
        intro hc; exact hq (Option.some.inj hc).symm
      exact (a10 p hp hne it hit' hs).mono rfl (Nat.le_refl _) (fun ev hev _ => hev)
  · intro p' hp' ph' st' rm' u hpc
    obtain ⟨p, hp, rfl⟩ := hmem p' hp'
    by_cases hq : p.q = q
    · rw [(updPc_of_eq hq).1] at hpc; cases hpc
    · rw [updPc_of_ne hq] at hpc; exact a16 p hp ph' st' rm' u hpc
  · intro ev hev u hk p' hp' ph' st' rm' hpc
    obtain ⟨p, hp, rfl⟩ := hmem p' hp'
    by_cases hq : p.q = q
    · rw [(updPc_of_eq hq).1] at hpc; cases hpc
    · rw [updPc_of_ne hq] at hpc; exact a11 ev hev u hk p hp ph' st' rm' hpc
  · intro p1 hp1 p2 hp2 ph1 st1 rm1 ph2 st2 rm2 u hpc1 hpc2
    obtain ⟨p, hp, rfl⟩ := hmem p1 hp1
    obtain ⟨p', hp', rfl⟩ := hmem p2 hp2
    rw [updPc_q, updPc_q]
    by_cases hq : p.q = q
    · rw [(updPc_of_eq hq).1] at hpc1; cases hpc1
    · by_cases hq' : p'.q = q
      · rw [(updPc_of_eq hq').1] at hpc2; cases hpc2
      · rw [updPc_of_ne hq] at hpc1; rw [updPc_of_ne hq'] at hpc2
        exact a12 p hp p' hp' ph1 st1 rm1 ph2 st2 rm2 u hpc1 hpc2

/-- fewer items, one more recorded arrival -/
theorem TIg.leave {x : Option Nat} {s s' : CBelt} (h : TIg x s) (e1 : s'.cfg = s.cfg) (e2 : s'.now = s.now)
    (e3 : ∀ it ∈ s'.items, it ∈ s.items) (e4 : s'.procs = s.procs) (e5 : s'.entered = s.entered) (e6 : s'.nput = s.nput)
    (e7 : s'.nextUid = s.nextUid) (e8 : s'.queue = s.queue)
    (e9 : ∀ a ∈ s'.arrivals, a ∈ s.arrivals ∨ ∃ e ∈ s.entered, e.seq = a.q ∧ a.t = e.entry + s.cfg.cap * s.cfg.p1 + a.ti) :
    TIg x s' := by
  obtain ⟨a1, a2, a3, a4, a5, a6, a7, a8, a9, a10, a16, a11, a12, a13, a14, a15⟩ := h
  refine ⟨?_, by rw [e8]; exact a2, ?_, ?_, ?_, ?_, ?_, by rw [e4]; exact a8, ?_, ?_, ?_, ?_, ?_, ?_, ?_, ?_⟩
  · intro e he; rw [e1]; exact a1 e (by rw [← e5]; exact he)
  · intro ev hev; rw [e2]; exact a3 ev (by rw [← e8]; exact hev)
  · intro ev hev u hk; rw [e7]; exact a4 ev (by rw [← e8]; exact hev) u hk
  · intro ev hev q hk; rw [e6]; exact a5 ev (by rw [← e8]; exact hev) q hk
  · intro ev hev q hk it hit hs; exact a6 ev (by rw [← e8]; exact hev) q hk it (e3 it hit) hs
  · intro p hp; rw [e6]; exact a7 p (by rw [← e4]; exact hp)
  · intro it hit; rw [e6]; exact a9 it (e3 it hit)
  · intro p hp hx it hit hs
    exact (a10 p (by rw [← e4]; exact hp) hx it (e3 it hit) hs).mono e1 (by rw [e2]; exact Nat.le_refl _)
      (fun ev hev _ => by rw [e8]; exact hev)
  · intro p hp ph st rm u hpc; rw [e7]; exact a16 p (by rw [← e4]; exact hp) ph st rm u hpc
  · intro ev hev u hk p hp; exact a11 ev (by rw [← e8]; exact hev) u hk p (by rw [← e4]; exact hp)
  · intro p hp p' hp'; exact a12 p (by rw [← e4]; exact hp) p' (by rw [← e4]; exact hp')
  · intro it hit
    obtain ⟨e, he, h1⟩ := a13 it (e3 it hit)
    exact ⟨e, by rw [e5]; exact he, h1⟩
  · intro e he; rw [e2]; exact a14 e (by rw [← e5]; exact he)
  · intro a ha
    rcases e9 a ha with h | ⟨e, he, h1, h2⟩
    · obtain ⟨e, he, h1, h2⟩ := a15 a h
      exact ⟨e, by rw [e5]; exact he, h1, by rw [e1]; exact h2⟩
    · exact ⟨e, by rw [e5]; exact he, h1, by rw [e1]; exact h2⟩

theorem TIg.endProc {x : Option Nat} {s : CBelt} (h : TIg x s) (p : MProc) (hx : ∀ y, x = some y → y = p.q) :
    TIg none (s.endProc p) := by
  have h1 := h.dropProc p.q hx
  exact h1.frS ⟨rfl, rfl, rfl, rfl, rfl, rfl, rfl, rfl, rfl⟩

theorem TIg.giveUp {x : Option Nat} {s : CBelt} (h : TIg x s) : TIg x s.giveUp :=
  h.frS ⟨rfl, rfl, rfl, rfl, rfl, rfl, rfl, rfl, rfl⟩

theorem TIg.riTrig {x : Option Nat} {s : CBelt} (h : TIg x s) :
    TIg x (({ s with ri := .trig } : CBelt).sched s.now false (.shot .ri s.riGen)) :=
  (h.frS (s' := { s with ri := .trig }) ⟨rfl, rfl, rfl, rfl, rfl, rfl, rfl, rfl, rfl⟩).fr (Fr.sched _ false _ trivial)

/-- the item of process p reaches the exit: recorded with its exact accounting -/
theorem TIg.arrive {x : Option Nat} {s : CBelt} (h : TIg x s) (p : MProc) (hx : ∀ y, x = some y → y = p.q)
    (hit : ∀ it ∈ s.items, it.seq = p.q → s.now = it.entry + it.totalInt + s.cfg.cap * s.cfg.p1) :
    TIg none (s.arrive p) := by
  unfold CBelt.arrive
  split
  · exact (h.endProc p hx).giveUp
  · rename_i e he
    obtain ⟨hmem, hseq⟩ := find_some he
    have hseq' : e.seq = p.q := by simpa using hseq
    have hsub : ∀ it ∈ s.items.erase e, it ∈ s.items := fun it hit => List.mem_of_mem_erase hit
    obtain ⟨ent, hent, hs1, hs2⟩ := h.entOK e hmem
    have hnow := hit e hmem hseq'
    simp only
    split
    · -- the new state before the one-shot event / the triggers / the end of the process
      have h1 : TIg x { s with items := s.items.erase e, ready := s.ready ++ [{ e with readyEntry := s.now }],
                               arrivals := s.arrivals ++ [({ q := p.q, t := s.now, ti := e.totalInt } : Arr)],
                               newReady := s.newReady ++ [e.item.id] } := by
        refine h.leave rfl rfl hsub rfl rfl rfl rfl rfl ?_
        intro a ha
        rcases List.mem_append.mp ha with ha | ha
        · exact Or.inl ha
        · simp at ha; subst ha
          exact Or.inr ⟨ent, hent, by rw [hs1, hseq'], by simp only; rw [hs2]; omega⟩
      split
      · refine TIg.endProc ?_ p hx
        refine (TIg.frS ?_ (FrS.trigGet _)).frS (FrS.trigPut _)
        exact h1.riTrig
      · refine TIg.endProc ?_ p hx
        exact (TIg.frS h1 (FrS.trigGet _)).frS (FrS.trigPut _)
    · refine (TIg.endProc ?_ p hx).giveUp
      refine h.leave rfl rfl hsub rfl rfl rfl rfl rfl ?_
      intro a ha
      rcases List.mem_append.mp ha with ha | ha
      · exact Or.inl ha
      · simp at ha; subst ha
        exact Or.inr ⟨ent, hent, by rw [hs1, hseq'], by simp only; rw [hs2]; omega⟩

theorem pred_mul_add' (c d : Nat) (h : 1 ≤ c) : (c - 1) * d + d = c * d := by
  have : c = (c - 1) + 1 := by omega
  conv => rhs; rw [this, Nat.add_mul, Nat.one_mul]

/-- start (or restart) a phase with `rem` left -/
theorem TIg.startPhase {x : Option Nat} {s : CBelt} (h : TIg x s) (p : MProc) (ph rem : Nat)
    (hx : ∀ y, x = some y → y = p.q)
    (hit : ∀ it ∈ s.items, it.seq = p.q → it.intStart = none ∧ s.now + rem = it.entry + it.totalInt + target s.cfg ph ∧
      p.total = it.totalInt ∧ (ph = 1 ∨ ph = 2)) :
    TIg none (s.startPhase p ph rem) := by
  have hcap : ∀ it ∈ s.items, 1 ≤ s.cfg.cap := by
    intro it hit'
    obtain ⟨e, he, _⟩ := h.entOK it hit'
    exact h.capPos e he
  unfold CBelt.startPhase
  split
  · exact h.runPc p.q ph rem p.total hx hit
  · rename_i hrem
    have hrem0 : rem = 0 := by omega
    subst hrem0
    split
    · rename_i hp1
      have hph1 : ph = 1 := by simpa using hp1
      subst hph1
      simp only
      split
      · refine h.runPc p.q 2 ((s.cfg.cap - 1) * s.cfg.p1) p.total hx ?_
        intro it hit' hs
        obtain ⟨h1, h2, h3, _⟩ := hit it hit' hs
        have := pred_mul_add' s.cfg.cap s.cfg.p1 (hcap it hit')
        refine ⟨h1, ?_, h3, Or.inr rfl⟩
        simp only [target] at h2 ⊢
        simp at h2 ⊢
        omega
      · rename_i hz
        refine h.arrive p hx ?_
        intro it hit' hs
        obtain ⟨h1, h2, h3, _⟩ := hit it hit' hs
        have := pred_mul_add' s.cfg.cap s.cfg.p1 (hcap it hit')
        simp only [target] at h2
        simp at h2
        omega
    · rename_i hp1
      refine h.arrive p hx ?_
      intro it hit' hs
      obtain ⟨h1, h2, h3, hph⟩ := hit it hit' hs
      have hph2 : ph = 2 := by
        rcases hph with h1 | h1
        · subst h1; simp at hp1
        · exact h1
      subst hph2
      simp only [target] at h2
      simp at h2
      omega

end CBelt
end FsVerif
