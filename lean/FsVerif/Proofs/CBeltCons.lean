/-
Continuous-conveyor model: conservation.  At every reachable state the identities of the items taken out, together with those
travelling or waiting at the exit, are — as a multiset — exactly the identities of the items ever put (C02 for belt_store.py
behind edges/continuous_conveyor.py; the conveyor half of the factory-wide identity C03).  The state machine's bookkeeping never
touches the contents (frame `Fr`); interrupts and resumes rewrite an item's travel bookkeeping but not its identity; the only
branch that would lose an item is the overflow guard of `move_to_ready_items` (`arrive`), dead by the capacity invariant `RoomC`.
-/
import FsVerif.Proofs.CBeltRoom
import FsVerif.Proofs.PosInv
namespace FsVerif
namespace CBelt

def idsC (s : CBelt) : List Nat := s.gotLog.map (·.id) ++ (s.items.map (·.item.id) ++ s.ready.map (·.item.id))

/-- got ∪ travelling ∪ at the exit = put, as multisets of item identities -/
def ConsC (s : CBelt) : Prop := (idsC s).Perm (s.entered.map (·.item.id))

/-- same contents (up to the travel bookkeeping of the items) -/
structure Sm (s s' : CBelt) : Prop where
  gotLog : s'.gotLog = s.gotLog
  items : s'.items.map (·.item.id) = s.items.map (·.item.id)
  ready : s'.ready.map (·.item.id) = s.ready.map (·.item.id)
  entered : s'.entered = s.entered

theorem Sm.refl (s : CBelt) : Sm s s := ⟨rfl, rfl, rfl, rfl⟩
theorem Sm.trans {a b c : CBelt} (h1 : Sm a b) (h2 : Sm b c) : Sm a c :=
  ⟨h2.gotLog.trans h1.gotLog, h2.items.trans h1.items, h2.ready.trans h1.ready, h2.entered.trans h1.entered⟩
theorem Sm.of_fr {s s' : CBelt} (f : Fr s s') : Sm s s' := ⟨f.gotLog, by rw [f.items], by rw [f.ready], f.entered⟩

theorem ConsC.sm {s s' : CBelt} (h : ConsC s) (f : Sm s s') : ConsC s' := by
  unfold ConsC idsC at *; rw [f.gotLog, f.items, f.ready, f.entered]; exact h

theorem Sm.trigPut (s : CBelt) : Sm s s.trigPut := by
  unfold CBelt.trigPut
  split
  · exact Sm.refl s
  · split <;> exact ⟨rfl, rfl, rfl, rfl⟩

theorem Sm.trigGet (s : CBelt) : Sm s s.trigGet := by
  unfold CBelt.trigGet
  split
  · exact Sm.refl s
  · split
    · split <;> exact ⟨rfl, rfl, rfl, rfl⟩
    · exact Sm.refl s

theorem Sm.sched (s : CBelt) (t : Nat) (u : Bool) (k : CKind) : Sm s (s.sched t u k) := ⟨rfl, rfl, rfl, rfl⟩
theorem Sm.endProc (s : CBelt) (p : MProc) : Sm s (s.endProc p) := ⟨rfl, rfl, rfl, rfl⟩
theorem Sm.giveUp (s : CBelt) : Sm s s.giveUp := ⟨rfl, rfl, rfl, rfl⟩
theorem Sm.setProc (s : CBelt) (q : Nat) (f : MProc → MProc) : Sm s (s.setProc q f) := ⟨rfl, rfl, rfl, rfl⟩

theorem Sm.setItem (s : CBelt) (q : Nat) (f : CItem → CItem) (hf : ∀ it, (f it).item = it.item) : Sm s (s.setItem q f) := by
  refine ⟨rfl, ?_, rfl, rfl⟩
  simp only [CBelt.setItem, List.map_map]
  apply List.map_congr_left
  intro it _
  simp only [Function.comp]
  split
  · rw [hf]
  · rfl

theorem Sm.of_items {s s' : CBelt} (g : CItem → CItem) (hg : ∀ it, (g it).item = it.item) (e1 : s'.gotLog = s.gotLog)
    (e2 : s'.items = s.items.map g) (e3 : s'.ready = s.ready) (e4 : s'.entered = s.entered) : Sm s s' := by
  refine ⟨e1, ?_, by rw [e3], e4⟩
  rw [e2, List.map_map]
  apply List.map_congr_left
  intro it _
  simp only [Function.comp, hg]

theorem removeItemC_ids (l : List CItem) (x : Item) (h : l.any (fun r => r.item.id == x.id) = true) :
    (l.map (·.item.id)).Perm (x.id :: (removeItem l x).map (·.item.id)) := by
  unfold removeItem
  split
  · rename_i i hi
    obtain ⟨hlt, hp⟩ : ∃ hlt : i < l.length, (l[i].item.id == x.id) = true := by
      have := List.findIdx?_eq_some_iff_getElem.mp hi
      exact ⟨this.1, this.2.1⟩
    have hget : l[i]? = some l[i] := List.getElem?_eq_getElem hlt
    have hperm := (PosStore.perm_cons_eraseIdx hget).map (·.item.id)
    have hid : l[i].item.id = x.id := by simpa using hp
    simpa [hid] using hperm
  · rename_i hn
    exfalso
    rw [List.findIdx?_eq_none_iff] at hn
    obtain ⟨r, hr, hrid⟩ := List.any_eq_true.mp h
    have := hn r hr
    simp [hrid] at this

/-- the two invariants travel together: the capacity bound is what makes the overflow guard dead -/
structure RC (s : CBelt) : Prop where
  room : RoomC s
  cons : ConsC s

theorem RC.sm {s s' : CBelt} (h : RC s) (f : Sm s s') (g : FrL s s') : RC s' := ⟨h.room.frL g, h.cons.sm f⟩
theorem RC.fr {s s' : CBelt} (h : RC s) (f : Fr s s') : RC s' := ⟨h.room.fr f, h.cons.sm (Sm.of_fr f)⟩

theorem ConsC.arrive {s : CBelt} (h : ConsC s) (hr : RoomC s) (p : MProc) : ConsC (s.arrive p) := by
  unfold CBelt.arrive
  split
  · exact h.sm ((Sm.endProc s p).trans (Sm.giveUp _))
  · rename_i e he
    have hm : e ∈ s.items := List.mem_of_find?_eq_some he
    have hl := erase_len hm
    simp only
    split
    · have h1 : ConsC { s with items := s.items.erase e, ready := s.ready ++ [{ e with readyEntry := s.now }], arrivals := s.arrivals ++ [(⟨p.q, s.now, e.totalInt⟩ : Arr)], newReady := s.newReady ++ [e.item.id] } := by
        unfold ConsC idsC at *
        simp only [List.map_append, List.map_cons, List.map_nil]
        refine List.Perm.trans ?_ h
        refine List.Perm.append_left _ ?_
        have hp : (s.items.map (·.item.id)).Perm (e.item.id :: (s.items.erase e).map (·.item.id)) := (List.perm_cons_erase hm).map (·.item.id)
        have h1 : ((s.items.erase e).map (·.item.id) ++ (s.ready.map (·.item.id) ++ [e.item.id])).Perm
            (e.item.id :: ((s.items.erase e).map (·.item.id) ++ s.ready.map (·.item.id))) := PosStore.perm_move _ _ _
        refine h1.trans ?_
        have := hp.symm.append_right (s.ready.map (·.item.id))
        simpa using this
      split
      · refine ConsC.sm (ConsC.sm (ConsC.sm ?_ (Sm.trigGet _)) (Sm.trigPut _)) (Sm.endProc _ p)
        exact h1.sm ⟨rfl, rfl, rfl, rfl⟩
      · exact ConsC.sm (ConsC.sm (h1.sm (Sm.trigGet _)) (Sm.trigPut _)) (Sm.endProc _ p)
    · rename_i hfull
      exfalso
      have := hr.room
      simp only [level] at this
      omega

theorem RC.arrive {s : CBelt} (h : RC s) (p : MProc) : RC (s.arrive p) := ⟨h.room.arrive p, h.cons.arrive h.room p⟩

theorem RC.startPhase {s : CBelt} (h : RC s) (p : MProc) (ph rem : Nat) : RC (s.startPhase p ph rem) := by
  refine ⟨h.room.startPhase p ph rem, ?_⟩
  unfold CBelt.startPhase
  split
  · exact h.cons.sm ⟨rfl, rfl, rfl, rfl⟩
  · split
    · simp only
      split
      · exact h.cons.sm ⟨rfl, rfl, rfl, rfl⟩
      · exact (h.arrive p).cons
    · exact (h.arrive p).cons

theorem RC.initM {s : CBelt} (h : RC s) (q : Nat) : RC (s.initM q) := by
  unfold CBelt.initM
  split
  · exact h
  · refine RC.startPhase ?_ _ _ _
    exact h.sm (Sm.setItem s q _ (fun _ => rfl)) (FrL.setItem s q _)

theorem RC.onTimeout {s : CBelt} (h : RC s) (u : Nat) : RC (s.onTimeout u) := by
  unfold CBelt.onTimeout
  split
  · split
    · exact (h.sm (Sm.sched _ _ _ _) (FrL.sched _ _ _ _)).startPhase _ _ _
    · exact h.startPhase _ _ _
  · split
    · simp only
      refine RC.sm (s := CBelt.interruptItem _ _) ?_ ⟨rfl, rfl, rfl, rfl⟩ ⟨rfl, rfl, rfl, rfl⟩
      refine RC.fr ?_ (Fr.interruptItem _ _)
      exact h.sm ⟨rfl, rfl, rfl, rfl⟩ ⟨rfl, rfl, rfl, rfl⟩
    · exact h

theorem RC.onInterrupt {s : CBelt} (h : RC s) (r : PRef) : RC (s.onInterrupt r) := by
  refine ⟨h.room.onInterrupt r, ?_⟩
  unfold CBelt.onInterrupt
  cases r with
  | delayed d =>
    simp only
    split
    · exact h.cons
    · split
      · exact h.cons
      · exact h.cons.sm ⟨rfl, rfl, rfl, rfl⟩
  | move q =>
    simp only
    split
    · exact h.cons
    · split
      · exact h.cons
      · refine h.cons.sm ?_
        refine Sm.of_items (fun it => if it.seq == q then { it with intStart := some s.now } else it) ?_ rfl rfl rfl rfl
        intro it; split <;> rfl
      · exact h.cons.sm ⟨rfl, rfl, rfl, rfl⟩

theorem RC.onResume {s : CBelt} (h : RC s) (g : Nat) : RC (s.onResume g) := by
  unfold CBelt.onResume
  generalize s.waitOrder = l
  induction l generalizing s with
  | nil => exact h
  | cons q qs ih =>
    simp only [List.foldl_cons]
    apply ih
    split
    · exact h
    · split
      · split
        · refine RC.startPhase ?_ _ _ _
          refine h.sm ?_ ⟨rfl, rfl, by simp [CBelt.setItem], rfl⟩
          refine Sm.of_items (fun it => if it.seq == q then { it with intStart := none, totalInt := _ } else it) ?_ rfl rfl rfl rfl
          intro it; split <;> rfl
        · exact h
      · exact h

theorem RC.trigPut {s : CBelt} (h : RC s) : RC s.trigPut := ⟨h.room.trigPut, h.cons.sm (Sm.trigPut s)⟩

theorem RC.handle {s : CBelt} (h : RC s) (k : CKind) : RC (s.handle k) := by
  unfold CBelt.handle
  cases k with
  | initM q => exact h.initM q
  | initD d =>
    simp only
    split
    · exact h
    · exact h.sm ⟨rfl, rfl, rfl, rfl⟩ ⟨rfl, rfl, rfl, rfl⟩
  | tmo u => exact h.onTimeout u
  | shot w g => exact h.fr (Fr.onShot s w g)
  | re g => exact h.onResume g
  | p1e => exact h.trigPut
  | cond u =>
    simp only
    split
    · split
      · exact h.fr (Fr.bWake s)
      · exact h
    · exact h
  | intr r => exact h.onInterrupt r

theorem Sm.riTrig (s : CBelt) : Sm s (({ s with ri := .trig } : CBelt).sched s.now false (.shot .ri s.riGen)) := ⟨rfl, rfl, rfl, rfl⟩
theorem Sm.iaTrig (s : CBelt) : Sm s (({ s with ia := .trig } : CBelt).sched s.now false (.shot .ia s.iaGen)) := ⟨rfl, rfl, rfl, rfl⟩
theorem Sm.paTrig (s : CBelt) : Sm s (({ s with pa := .trig } : CBelt).sched s.now false (.shot .pa s.paGen)) := ⟨rfl, rfl, rfl, rfl⟩
theorem Sm.gaTrig (s : CBelt) : Sm s (({ s with ga := .trig } : CBelt).sched s.now false (.shot .ga s.gaGen)) := ⟨rfl, rfl, rfl, rfl⟩

/-- an item enters -/
theorem ConsC.enter {s s2 : CBelt} (h : ConsC s) (c : CItem) (e1 : s2.items = s.items ++ [c]) (e2 : s2.ready = s.ready)
    (e3 : s2.gotLog = s.gotLog) (e4 : s2.entered = s.entered ++ [c]) : ConsC s2 := by
  unfold ConsC idsC at *
  rw [e1, e2, e3, e4]
  simp only [List.map_append, List.map_cons, List.map_nil]
  have h1 : (s.gotLog.map (·.id) ++ (s.items.map (·.item.id) ++ [c.item.id] ++ s.ready.map (·.item.id))).Perm
      ((s.gotLog.map (·.id) ++ (s.items.map (·.item.id) ++ s.ready.map (·.item.id))) ++ [c.item.id]) := by
    simp only [List.append_assoc]
    refine List.Perm.append_left _ (List.Perm.append_left _ ?_)
    exact (List.perm_append_comm (l₁ := [c.item.id]) (l₂ := s.ready.map (·.item.id)))
  exact h1.trans (h.append_right [c.item.id])

/-- an item waiting at the exit is taken out -/
theorem ConsC.take {s s2 : CBelt} (h : ConsC s) (e : CItem) (hany : s.ready.any (fun r => r.item.id == e.item.id) = true)
    (e1 : s2.items = s.items) (e2 : s2.ready = removeItem s.ready e.item) (e3 : s2.gotLog = s.gotLog ++ [e.item])
    (e4 : s2.entered = s.entered) : ConsC s2 := by
  unfold ConsC idsC at *
  rw [e1, e2, e3, e4]
  simp only [List.map_append, List.map_cons, List.map_nil]
  have hr := removeItemC_ids s.ready e.item hany
  refine List.Perm.trans ?_ h
  simp only [List.append_assoc]
  refine List.Perm.append_left _ ?_
  have h3 : (e.item.id :: (s.items.map (·.item.id) ++ (removeItem s.ready e.item).map (·.item.id))).Perm
      (s.items.map (·.item.id) ++ s.ready.map (·.item.id)) := by
    have : (s.items.map (·.item.id) ++ s.ready.map (·.item.id)).Perm
        (s.items.map (·.item.id) ++ (e.item.id :: (removeItem s.ready e.item).map (·.item.id))) := List.Perm.append_left _ hr
    exact (this.trans List.perm_middle).symm
  simpa using h3

/-- a released item goes back among the waiting ones -/
theorem ConsC.reinsert {s s2 : CBelt} (h : ConsC s) (e : CItem) (k : Nat) (hany : s.ready.any (fun r => r.item.id == e.item.id) = true)
    (e1 : s2.items = s.items) (e2 : s2.ready = pyInsert (removeItem s.ready e.item) k e) (e3 : s2.gotLog = s.gotLog)
    (e4 : s2.entered = s.entered) : ConsC s2 := by
  unfold ConsC idsC at *
  rw [e1, e2, e3, e4]
  refine List.Perm.trans ?_ h
  refine List.Perm.append_left _ (List.Perm.append_left _ ?_)
  have hr := removeItemC_ids s.ready e.item hany
  exact ((pyInsert_perm (removeItem s.ready e.item) k e).map (·.item.id)).trans (by simpa using hr.symm)

theorem ConsC.put {s : CBelt} (h : ConsC s) (p tid : Nat) (x : Item) : ConsC (s.put p tid x).1 := by
  unfold CBelt.put
  split
  · exact h
  · split
    · exact h
    · rename_i t ht
      simp only
      split
      · have h5 : ConsC (CBelt.trigGet { ((({ ({ s with putRes := s.putRes.erase t } : CBelt) with items := s.items ++ [(⟨x, s.nput, s.now, 0, none, 0⟩ : CItem)], nput := s.nput + 1, entered := s.entered ++ [(⟨x, s.nput, s.now, 0, none, 0⟩ : CItem)] } : CBelt).updLevel).sched s.now true (.initM s.nput)) with procs := s.procs ++ [(⟨s.nput, x.id, .fresh, 0⟩ : MProc)], activeMove := dictSet s.activeMove x.id s.nput }) := by
          refine ConsC.sm ?_ (Sm.trigGet _)
          exact h.enter (⟨x, s.nput, s.now, 0, none, 0⟩ : CItem) rfl rfl rfl rfl
        split
        · split
          · split
            · exact h5.sm (Sm.of_fr (Fr.handleNew _ _))
            · exact h5
          · have h6 := h5.sm (Sm.iaTrig _)
            split
            · exact h6.sm (Sm.of_fr (Fr.handleNew _ _))
            · exact h6
        · split
          · split
            · exact h5.sm (Sm.of_fr (Fr.handleNew _ _))
            · exact h5
          · have h6 := h5.sm (Sm.paTrig _)
            split
            · exact h6.sm (Sm.of_fr (Fr.handleNew _ _))
            · exact h6
      · exact h.sm ⟨rfl, rfl, rfl, rfl⟩

theorem ConsC.get {s : CBelt} (h : ConsC s) (p tid : Nat) : ConsC (s.get p tid).1 := by
  unfold CBelt.get
  split
  · exact h
  · split
    · exact h
    · split
      · exact h
      · split
        · exact h.sm ⟨rfl, rfl, rfl, rfl⟩
        · rename_i e _
          simp only
          split
          · rename_i hany
            split
            · show ConsC (CBelt.trigPut _)
              refine ConsC.sm ?_ (Sm.trigPut _)
              exact h.take e hany rfl rfl rfl rfl
            · show ConsC (CBelt.sched _ _ _ _)
              refine ConsC.sm ?_ (Sm.gaTrig _)
              show ConsC (CBelt.trigPut _)
              refine ConsC.sm ?_ (Sm.trigPut _)
              exact h.take e hany rfl rfl rfl rfl
          · exact h.sm ⟨rfl, rfl, rfl, rfl⟩

theorem ConsC.cancelPut {s : CBelt} (h : ConsC s) (tid : Nat) : ConsC (s.cancelPut tid).1 := by
  unfold CBelt.cancelPut
  split
  · show ConsC (CBelt.trigPut _)
    refine ConsC.sm ?_ (Sm.trigPut _)
    exact h.sm ⟨rfl, rfl, rfl, rfl⟩
  · split
    · show ConsC (CBelt.trigPut _)
      refine ConsC.sm ?_ (Sm.trigPut _)
      exact h.sm ⟨rfl, rfl, rfl, rfl⟩
    · exact h

theorem ConsC.cancelGet {s : CBelt} (h : ConsC s) (tid : Nat) : ConsC (s.cancelGet tid).1 := by
  unfold CBelt.cancelGet
  split
  · show ConsC (CBelt.trigGet _)
    refine ConsC.sm ?_ (Sm.trigGet _)
    exact h.sm ⟨rfl, rfl, rfl, rfl⟩
  · split
    · split
      · exact h.sm ⟨rfl, rfl, rfl, rfl⟩
      · split
        · exact h.sm ⟨rfl, rfl, rfl, rfl⟩
        · rename_i e _
          simp only
          split
          · rename_i hany
            show ConsC (CBelt.trigGet _)
            refine ConsC.sm ?_ (Sm.trigGet _)
            exact h.reinsert e _ hany rfl rfl rfl rfl
          · exact h.sm ⟨rfl, rfl, rfl, rfl⟩
    · exact h

theorem RC.step {s : CBelt} (h : RC s) (op : Op) : RC (s.step op).1 := by
  refine ⟨h.room.step op, ?_⟩
  unfold CBelt.step
  have h' : RC { s with fired := [], newReady := [] } := h.sm ⟨rfl, rfl, rfl, rfl⟩ ⟨rfl, rfl, rfl, rfl⟩
  cases op with
  | reservePut p =>
    show ConsC (CBelt.trigPut _)
    refine ConsC.sm ?_ (Sm.trigPut _)
    exact h'.cons.sm ⟨rfl, rfl, rfl, rfl⟩
  | reserveGet p =>
    show ConsC (CBelt.trigGet _)
    refine ConsC.sm ?_ (Sm.trigGet _)
    exact h'.cons.sm ⟨rfl, rfl, rfl, rfl⟩
  | put p t x => exact h'.cons.put p t x
  | get p t => exact h'.cons.get p t
  | cancelPut t => exact h'.cons.cancelPut t
  | cancelGet t => exact h'.cons.cancelGet t
  | adv dt =>
    simp only [CBelt.adv]
    split
    · split <;> exact h'.cons.sm ⟨rfl, rfl, rfl, rfl⟩
    · exact h'.cons.sm ⟨rfl, rfl, rfl, rfl⟩
  | ev =>
    simp only [CBelt.ev]
    split
    · exact h'.cons
    · refine (RC.handle (s := { s with fired := [], newReady := [], queue := _, now := _ }) ?_ _).cons
      exact h'.sm ⟨rfl, rfl, rfl, rfl⟩ ⟨rfl, rfl, rfl, rfl⟩
  | final => exact h'.cons.sm ⟨rfl, rfl, rfl, rfl⟩

theorem init_rc (cfg : CCfg) : RC (init cfg) := ⟨init_roomC cfg, by unfold ConsC idsC init; simp⟩

theorem run_rc (ops : List Op) : ∀ (s : CBelt), RC s → RC (s.run ops) := by
  induction ops with
  | nil => intro s h; exact h
  | cons op ops ih => intro s h; exact ih _ (h.step op)

end CBelt
end FsVerif
