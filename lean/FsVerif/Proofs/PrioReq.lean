/-
PriorityReqStore model: both request queues are always sorted by (priority, arrival) and only
the head is ever served.
-/
import FsVerif.Model.PrioReq
import FsVerif.Proofs.Basic
namespace FsVerif
namespace PrioReq

def PSorted (l : List (Tok × Item)) : Prop := l.Pairwise (fun a b => a.1.before b.1)

structure Inv (s : PrioReq) : Prop where
  putS : PSorted s.putQ
  getS : QSorted s.getQ
  putLt : ∀ p ∈ s.putQ, p.1.id < s.nextId
  getLt : ∀ t ∈ s.getQ, t.id < s.nextId

theorem insPut_perm (t : Tok × Item) (l : List (Tok × Item)) : (insPut t l).Perm (t :: l) := by
  induction l with
  | nil => simp [insPut]
  | cons x xs ih =>
    unfold insPut
    split
    · exact List.Perm.refl _
    · exact (List.Perm.cons x ih).trans (List.Perm.swap t x xs)

theorem insPut_sorted {t : Tok × Item} {l : List (Tok × Item)} (h : PSorted l) (hnew : ∀ a ∈ l, a.1.id < t.1.id) :
    PSorted (insPut t l) := by
  induction l with
  | nil => simp [insPut, PSorted]
  | cons x xs ih =>
    unfold insPut
    have hx : PSorted xs := (List.pairwise_cons.mp h).2
    have hxa := (List.pairwise_cons.mp h).1
    split
    · rename_i hlt
      refine List.pairwise_cons.mpr ⟨?_, h⟩
      intro a ha
      rcases List.mem_cons.mp ha with rfl | ha
      · exact Or.inl hlt
      · have := hxa a ha
        unfold Tok.before at this ⊢
        rcases this with h1 | ⟨h1, _⟩ <;> left <;> omega
    · rename_i hnlt
      have ih' := ih hx (fun a ha => hnew a (List.mem_cons_of_mem _ ha))
      refine List.pairwise_cons.mpr ⟨?_, ih'⟩
      intro a ha
      rcases List.mem_cons.mp ((insPut_perm t xs).mem_iff.mp ha) with rfl | ha
      · have := hnew x (List.mem_cons_self)
        unfold Tok.before
        by_cases he : x.1.prio = a.1.prio
        · right; exact ⟨he, this⟩
        · left; omega
      · exact hxa a ha

theorem trigPut_inv {s : PrioReq} (h : Inv s) : Inv s.trigPut := by
  unfold trigPut
  split
  · exact h
  · rename_i t x q hq
    split
    · obtain ⟨a, b, c, d⟩ := h
      rw [hq] at a c
      exact ⟨(List.pairwise_cons.mp a).2, b, fun p hp => c p (List.mem_cons_of_mem _ hp), d⟩
    · exact h

theorem trigGet_inv {s : PrioReq} (h : Inv s) : Inv s.trigGet := by
  unfold trigGet
  split
  · exact h
  · rename_i t q hq
    split
    · exact h
    · obtain ⟨a, b, c, d⟩ := h
      rw [hq] at b d
      exact ⟨a, (List.pairwise_cons.mp b).2, c, fun p hp => d p (List.mem_cons_of_mem _ hp)⟩

theorem frame_inv {s s' : PrioReq} (h : Inv s) (e1 : s'.putQ = s.putQ) (e2 : s'.getQ = s.getQ) (e3 : s'.nextId = s.nextId) :
    Inv s' := by
  obtain ⟨a, b, c, d⟩ := h
  constructor <;> simp only [e1, e2, e3] <;> assumption

theorem kstep_inv {s : PrioReq} (h : Inv s) : Inv s.kstep := by
  unfold kstep
  split
  · exact h
  · simp only
    split
    · exact trigGet_inv (frame_inv h rfl rfl rfl)
    · exact trigPut_inv (frame_inv h rfl rfl rfl)

theorem settleAux_inv (n : Nat) {s : PrioReq} (h : Inv s) : Inv (settleAux n s) := by
  induction n generalizing s with
  | zero => exact h
  | succ n ih =>
    unfold settleAux
    split
    · exact h
    · exact ih (kstep_inv h)

theorem step_inv {s : PrioReq} (op : Op) (h : Inv s) : Inv (step s op) := by
  have h' : Inv { s with fired := [], err := false } := frame_inv h rfl rfl rfl
  unfold step
  cases op with
  | put p x =>
    simp only [put]
    apply trigPut_inv
    obtain ⟨a, b, c, d⟩ := h'
    refine ⟨insPut_sorted a (fun q hq => c q hq), b, ?_, fun t ht => by have := d t ht; simp at this ⊢; omega⟩
    intro q hq
    rcases List.mem_cons.mp ((insPut_perm _ _).mem_iff.mp hq) with rfl | hq
    · simp
    · have := c q hq; simp at this ⊢; omega
  | get p =>
    simp only [get]
    apply trigGet_inv
    obtain ⟨a, b, c, d⟩ := h'
    refine ⟨a, insSorted_sorted b (fun q hq => d q hq), fun t ht => by have := c t ht; simp at this ⊢; omega, ?_⟩
    intro q hq
    rcases mem_insSorted.mp hq with rfl | hq
    · simp
    · have := d q hq; simp at this ⊢; omega
  | cancel i =>
    simp only [cancel]
    obtain ⟨a, b, c, d⟩ := h'
    split
    · exact ⟨a.sublist List.filter_sublist, b.sublist List.filter_sublist,
        fun p hp => c p (List.mem_filter.mp hp).1, fun t ht => d t (List.mem_filter.mp ht).1⟩
    · split
      · exact ⟨a, b, c, d⟩
      · exact ⟨a, b, c, d⟩
  | kstep => exact kstep_inv h'
  | settle => exact settleAux_inv _ h'

theorem reachable_inv {s : PrioReq} (h : Reachable s) : Inv s := by
  obtain ⟨cap, ops, rfl⟩ := h
  have hgen : ∀ (ops : List Op) (s0 : PrioReq), Inv s0 → Inv (run s0 ops) := by
    intro ops
    induction ops with
    | nil => intro s0 h0; exact h0
    | cons o os ih => intro s0 h0; exact ih _ (step_inv o h0)
  exact hgen ops _ ⟨by simp [init, PSorted], by simp [init, QSorted], by simp [init], by simp [init]⟩

/-- the request served by a trigger precedes every request still waiting on that side -/
theorem trigPut_min {s : PrioReq} (h : Inv s) {t : Tok} {x : Item} {q : List (Tok × Item)}
    (hq : s.putQ = (t, x) :: q) : ∀ w ∈ q, t.before w.1 := by
  have := h.putS; rw [hq] at this
  exact fun w hw => (List.pairwise_cons.mp this).1 w hw

theorem trigGet_min {s : PrioReq} (h : Inv s) {t : Tok} {q : List Tok}
    (hq : s.getQ = t :: q) : ∀ w ∈ q, t.before w := by
  have := h.getS; rw [hq] at this
  exact fun w hw => (List.pairwise_cons.mp this).1 w hw


/-! ### finitely many events per instant -/

def measure (s : PrioReq) : Nat := s.pending.length + s.putQ.length + s.getQ.length

theorem trigPut_measure (s : PrioReq) : measure s.trigPut = measure s := by
  unfold trigPut measure
  split
  · rfl
  · rename_i t x q hq
    split
    · simp [hq]; omega
    · rfl

theorem trigGet_measure (s : PrioReq) : measure s.trigGet = measure s := by
  unfold trigGet measure
  split
  · rfl
  · rename_i t q hq
    split
    · rfl
    · simp [hq]; omega

theorem kstep_measure (s : PrioReq) (h : s.pending ≠ []) : measure s.kstep + 1 = measure s := by
  unfold kstep
  split
  · rename_i hp; exact absurd hp h
  · rename_i isPut id rest hp
    simp only
    split
    · rw [trigGet_measure]; simp [measure, hp]; omega
    · rw [trigPut_measure]; simp [measure, hp]; omega

theorem settleAux_quiescent (n : Nat) (s : PrioReq) (h : measure s < n) : (settleAux n s).pending = [] := by
  induction n generalizing s with
  | zero => omega
  | succ n ih =>
    unfold settleAux
    split
    · rename_i he; simpa using he
    · rename_i hne
      have hp : s.pending ≠ [] := by simpa using hne
      have := kstep_measure s hp
      exact ih s.kstep (by omega)

/-- `settle` reaches a state in which no request event is pending: only finitely many kernel events
    happen in one instant -/
theorem settle_quiescent (s : PrioReq) : s.settle.pending = [] := by
  unfold settle
  exact settleAux_quiescent _ s (by unfold measure; omega)

end PrioReq
end FsVerif
