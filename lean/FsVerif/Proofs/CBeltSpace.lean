/-
Continuous-conveyor model: successive items enter at least one item length of belt travel (p1 ticks of clock time)
apart.  The invariant `SP` is carried next to the travel-time invariant `TI` (it needs the exact arrival accounting:
an item that has left the moving part of the belt entered at least capacity·p1 ≥ p1 ago).
-/
import FsVerif.Proofs.CBeltTime6
import FsVerif.Proofs.CBeltRoom
namespace FsVerif
namespace CBelt

def ik (it : CItem) : Nat × Nat := (it.seq, it.entry)

structure SP (s : CBelt) : Prop where
  seqLt : ∀ e ∈ s.entered, e.seq < s.nput
  entSorted : s.entered.Pairwise (fun a b => a.seq < b.seq)
  gone : ∀ e ∈ s.entered, (e.seq, e.entry) ∈ s.items.map ik ∨ ∃ a ∈ s.arrivals, a.q = e.seq
  arrLe : ∀ a ∈ s.arrivals, a.t ≤ s.now
  itemsSorted : (s.items.map ik).Pairwise (fun a b => a.2 ≤ b.2)
  grantOK : s.putRes ≠ [] → ∀ e ∈ s.entered, e.entry + s.cfg.p1 ≤ s.now
  spaced : s.entered.Pairwise (fun a b => a.entry + s.cfg.p1 ≤ b.entry)

theorem init_sp (cfg : CCfg) : SP (init cfg) := by
  constructor <;> simp [init]

theorem SP.congr {s s' : CBelt} (h : SP s) (e1 : s'.entered = s.entered) (e2 : s'.items.map ik = s.items.map ik)
    (e3 : s'.arrivals = s.arrivals) (e4 : s'.putRes = s.putRes) (e5 : s'.now = s.now) (e6 : s'.nput = s.nput) (e7 : s'.cfg = s.cfg) :
    SP s' := by
  obtain ⟨a1, a2, a3, a4, a5, a6, a7⟩ := h
  constructor <;> simp only [e1, e2, e3, e4, e5, e6, e7] at * <;> assumption

theorem SP.fr {s s' : CBelt} (h : SP s) (f : Fr s s') : SP s' :=
  h.congr f.entered (by rw [f.items]) f.arrivals f.putRes f.now f.nput f.cfg

theorem SP.frS {s s' : CBelt} (h : SP s) (f : FrS s s') (hp : s'.putRes = s.putRes) : SP s' :=
  h.congr f.entered (by rw [f.items]) f.arrivals hp f.now f.nput f.cfg

theorem SP.timeStep {s : CBelt} (h : SP s) (t : Nat) (ht : s.now ≤ t) : SP { s with now := t } := by
  obtain ⟨a1, a2, a3, a4, a5, a6, a7⟩ := h
  refine ⟨a1, a2, a3, ?_, a5, ?_, a7⟩
  · intro a ha; exact Nat.le_trans (a4 a ha) ht
  · intro hc e he; exact Nat.le_trans (a6 hc e he) ht

theorem pairwise_last {α} {R : α → α → Prop} {l : List α} {x : α} (h : l.Pairwise R) (hl : l.getLast? = some x) :
    ∀ e ∈ l, e = x ∨ R e x := by
  induction l with
  | nil => simp at hl
  | cons a as ih =>
    intro e he
    cases as with
    | nil => simp at hl he; left; rw [he, hl]
    | cons b bs =>
      have hl' : (b :: bs).getLast? = some x := by simpa [List.getLast?_cons_cons] using hl
      have hx : x ∈ (b :: bs) := List.mem_of_getLast? hl'
      rcases List.mem_cons.mp he with rfl | he
      · right; exact (List.pairwise_cons.mp h).1 x hx
      · exact ih (List.pairwise_cons.mp h).2 hl' e he

theorem ent_unique {l : List CItem} (h : l.Pairwise (fun a b => a.seq < b.seq)) {a b : CItem} (ha : a ∈ l) (hb : b ∈ l)
    (hs : a.seq = b.seq) : a = b := by
  induction l with
  | nil => cases ha
  | cons x xs ih =>
    have hx := (List.pairwise_cons.mp h).1
    rcases List.mem_cons.mp ha with ha | ha
    · rcases List.mem_cons.mp hb with hb | hb
      · rw [ha, hb]
      · have := hx b hb; rw [ha] at hs; omega
    · rcases List.mem_cons.mp hb with hb | hb
      · have := hx a ha; rw [hb] at hs; omega
      · exact ih (List.pairwise_cons.mp h).2 ha hb

/-- what `_do_reserve_put`'s spacing test says when it admits: the last moving item entered at least p1 ago -/
theorem admits_last {s : CBelt} (h : s.admits = some true) (hle : ∀ it ∈ s.items, it.entry ≤ s.now) : s.putRes = [] ∧
    ∀ l, s.items.getLast? = some l → l.entry + s.cfg.p1 ≤ s.now := by
  unfold admits at h
  split at h
  · cases h
  · rename_i hemp
    have hnil : s.putRes = [] := by
      cases hp : s.putRes with
      | nil => rfl
      | cons a as => simp [hp] at hemp
    refine ⟨hnil, ?_⟩
    intro l hl
    have hlm : l ∈ s.items := List.mem_of_getLast? hl
    have hlle := hle l hlm
    split at h
    · rename_i first last hf hl'
      rw [hl] at hl'
      cases hl'
      split at h
      · split at h
        · split at h
          · cases h
          · simp only [Option.some.injEq, Bool.and_eq_true, decide_eq_true_eq] at h
            have := h.1
            unfold tob at this
            cases hi : l.intStart with
            | none => simp only [hi] at this; omega
            | some t => simp only [hi] at this; omega
        · cases h
      · cases h
    · rename_i hno
      cases hh : s.items.head? with
      | none =>
        have : s.items = [] := by simpa using hh
        rw [this] at hlm; cases hlm
      | some f => exact absurd hl (hno f l hh)

end CBelt
end FsVerif
