/-
Equivariance of the positional stores (FCFS and priority classes) under renaming of item identities:
the stores never compute with an item's identity except to recognise the same object again, so for every
injective renaming g of item ids, running the renamed operations gives the renamed states and results.
This is the model-level counterpart of "behaviour does not depend on id() values or on hashing" (C19).
-/
import FsVerif.Model.PosStore
import FsVerif.Proofs.PosExtra
namespace FsVerif
namespace PosStore

def mapItem (g : Nat → Nat) (x : Item) : Item := { x with id := g x.id }
def mapEntry (g : Nat → Nat) (e : Entry) : Entry := { e with item := mapItem g e.item }

def mapS (g : Nat → Nat) (s : PosStore) : PosStore :=
  { s with items := s.items.map (mapEntry g), putLog := s.putLog.map (mapItem g), gotLog := s.gotLog.map (mapItem g) }

def mapOp (g : Nat → Nat) : Op → Op
  | .put p t x => .put p t (mapItem g x)
  | op => op

def mapRes (g : Nat → Nat) : Res → Res
  | .item x => .item (mapItem g x)
  | r => r

theorem eraseIdx_map {α β} (f : α → β) (l : List α) (i : Nat) : (l.map f).eraseIdx i = (l.eraseIdx i).map f := by
  induction l generalizing i with
  | nil => rfl
  | cons a as ih =>
    cases i with
    | zero => rfl
    | succ n => simp [List.eraseIdx, ih]

theorem pyInsert_map {α β} (f : α → β) (l : List α) (i : Nat) (a : α) : pyInsert (l.map f) i (f a) = (pyInsert l i a).map f := by
  unfold pyInsert; simp [List.map_take, List.map_drop]

theorem mapS_admits (g : Nat → Nat) (s : PosStore) : (mapS g s).admits = s.admits := by
  unfold admits mapS; simp

theorem mapS_trigPut (g : Nat → Nat) (s : PosStore) : (mapS g s).trigPut = mapS g s.trigPut := by
  unfold trigPut
  show (match s.putQ with | [] => mapS g s | t :: q => if (mapS g s).admits then _ else mapS g s) = _
  rw [mapS_admits]
  cases s.putQ with
  | nil => rfl
  | cons t q =>
    simp only
    split <;> rfl

theorem mapS_serves (g : Nat → Nat) (s : PosStore) (hf : s.cfg.filter = false) (t : Tok) : (mapS g s).serves t = s.serves t := by
  unfold serves mapS; simp [hf]

theorem mapS_trigGet (g : Nat → Nat) (s : PosStore) (hf : s.cfg.filter = false) : (mapS g s).trigGet = mapS g s.trigGet := by
  unfold trigGet
  show (match s.getQ with | [] => mapS g s | t :: q => if (mapS g s).serves t then _ else mapS g s) = _
  cases s.getQ with
  | nil => rfl
  | cons t q =>
    simp only
    rw [mapS_serves g s hf]
    split
    · have hseq : ((List.drop s.resEv.length (s.items.map (mapEntry g))).head?.toList.map (·.seq)) =
          ((List.drop s.resEv.length s.items).head?.toList.map (·.seq)) := by
        rw [← List.map_drop, List.head?_map]
        cases (List.drop s.resEv.length s.items).head? <;> rfl
      simp only [mapS]
      rw [hseq]
    · rfl

theorem mapS_updLevel (g : Nat → Nat) (s : PosStore) : (mapS g s).updLevel = mapS g s.updLevel := by
  unfold updLevel
  show (if s.cfg.filter then mapS g s else _) = _
  split
  · rfl
  · simp [mapS]

theorem restamp_map (g : Nat → Nat) (hg : Function.Injective g) (l : List Entry) (id now : Nat) :
    restamp (l.map (mapEntry g)) (g id) now = (restamp l id now).map (mapEntry g) := by
  unfold restamp
  rw [List.map_map, List.map_map]
  apply List.map_congr_left
  intro e _
  simp only [Function.comp, mapEntry, mapItem]
  by_cases h : e.item.id = id
  · simp [h]
  · have : g e.item.id ≠ g id := fun hc => h (hg hc)
    simp [h, this]

theorem mapS_dropPutRes (g : Nat → Nat) (s : PosStore) (t : Tok) : (mapS g s).dropPutRes t = mapS g (s.dropPutRes t) := rfl
theorem mapS_dropGetRes (g : Nat → Nat) (s : PosStore) (t : Tok) : (mapS g s).dropGetRes t = mapS g (s.dropGetRes t) := rfl

theorem mapS_addTimer (g : Nat → Nat) (s : PosStore) : (mapS g s).addTimer = mapS g s.addTimer := by
  unfold addTimer
  show (if s.cfg.filter then _ else mapS g s) = _
  split <;> rfl

theorem mapS_capRoom (g : Nat → Nat) (s : PosStore) : (mapS g s).capRoom = s.capRoom := by
  unfold capRoom mapS; simp

theorem mapS_addItem (g : Nat → Nat) (hg : Function.Injective g) (s : PosStore) (x : Item) :
    (mapS g s).addItem (mapItem g x) = mapS g (s.addItem x) := by
  unfold addItem
  have h := restamp_map g hg s.items x.id s.now
  simp only [mapS, List.map_append, List.map_cons, List.map_nil, List.length_map]
  show ({ s with items := restamp (s.items.map (mapEntry g)) (g x.id) s.now ++ [_], putLog := _, gotLog := _ } : PosStore) = _
  rw [h]
  rfl

theorem mapS_takeItem (g : Nat → Nat) (s : PosStore) (i : Nat) (x : Item) :
    (mapS g s).takeItem i (mapItem g x) = mapS g (s.takeItem i x) := by
  unfold takeItem
  simp only [mapS, List.map_append, List.map_cons, List.map_nil]
  rw [eraseIdx_map]

theorem mapS_releaseItem (g : Nat → Nat) (s : PosStore) (i : Nat) (e : Entry) :
    (mapS g s).releaseItem i (mapEntry g e) = mapS g (s.releaseItem i e) := by
  unfold releaseItem
  simp only [mapS]
  rw [eraseIdx_map, pyInsert_map]

theorem mapS_setNow (g : Nat → Nat) (s : PosStore) (d : Nat) : (mapS g s).setNow d = mapS g (s.setNow d) := by
  unfold setNow mapS; simp

theorem mapS_fireAll (g : Nat → Nat) (ds : List Nat) : ∀ (s : PosStore), s.cfg.filter = false →
    fireAll ds (mapS g s) = mapS g (fireAll ds s) := by
  induction ds with
  | nil => intro s _; rfl
  | cons d ds ih =>
    intro s hf
    simp only [fireAll]
    rw [mapS_setNow, mapS_trigGet g _ (by exact hf)]
    exact ih _ (by rw [PosStore.trigGet_cfg]; exact hf)

theorem mapS_kstepAux (g : Nat → Nat) (n : Nat) : ∀ (s : PosStore), s.cfg.filter = false →
    kstepAux n (mapS g s) = mapS g (kstepAux n s) := by
  induction n with
  | zero => intro s _; rfl
  | succ n ih =>
    intro s hf
    simp only [kstepAux]
    show (match s.timers with | [] => mapS g s | d :: ds => _) = _
    cases hts : s.timers with
    | nil => simp only [hts]
    | cons d ds =>
      simp only [hts]
      show (if d ≤ s.now then _ else mapS g s) = _
      split
      · have e1 : ({ mapS g s with timers := ds } : PosStore) = mapS g { s with timers := ds } := rfl
        rw [e1, mapS_trigGet g _ (by exact hf)]
        have e2 : (mapS g (PosStore.trigGet { s with timers := ds })).fired = (PosStore.trigGet { s with timers := ds }).fired := rfl
        rw [e2]
        split
        · exact ih _ (by rw [PosStore.trigGet_cfg]; exact hf)
        · rfl
      · rfl

@[simp] theorem mapS_putRes (g : Nat → Nat) (s : PosStore) : (mapS g s).putRes = s.putRes := rfl
@[simp] theorem mapS_getRes (g : Nat → Nat) (s : PosStore) : (mapS g s).getRes = s.getRes := rfl
@[simp] theorem mapS_resEv (g : Nat → Nat) (s : PosStore) : (mapS g s).resEv = s.resEv := rfl
@[simp] theorem mapS_putQ (g : Nat → Nat) (s : PosStore) : (mapS g s).putQ = s.putQ := rfl
@[simp] theorem mapS_getQ (g : Nat → Nat) (s : PosStore) : (mapS g s).getQ = s.getQ := rfl
@[simp] theorem mapS_timers (g : Nat → Nat) (s : PosStore) : (mapS g s).timers = s.timers := rfl
@[simp] theorem mapS_now (g : Nat → Nat) (s : PosStore) : (mapS g s).now = s.now := rfl
@[simp] theorem mapS_cfg (g : Nat → Nat) (s : PosStore) : (mapS g s).cfg = s.cfg := rfl

theorem put_equiv (g : Nat → Nat) (hg : Function.Injective g) (s : PosStore) (hf : s.cfg.filter = false) (p t : Nat) (x : Item) :
    (mapS g s).put p t (mapItem g x) = (mapS g (s.put p t x).1, mapRes g (s.put p t x).2) := by
  unfold PosStore.put
  simp only [mapS_putRes]
  by_cases hE : s.putRes.isEmpty = true
  · simp only [hE, ↓reduceIte]; rfl
  · have hE' : s.putRes.isEmpty = false := by simpa using hE
    simp only [hE', Bool.false_eq_true, ↓reduceIte]
    cases h2 : s.putRes.find? (fun t' => t'.id == t && t'.proc == p) with
    | none => rfl
    | some tk =>
      simp only
      rw [mapS_dropPutRes, mapS_addTimer, mapS_capRoom]
      cases h3 : ((s.dropPutRes tk).addTimer).capRoom
      · simp only [Bool.false_eq_true, ↓reduceIte]; rfl
      · simp only [↓reduceIte]
        refine Prod.ext ?_ rfl
        dsimp only
        rw [mapS_addItem g hg]
        have hf2 : (((s.dropPutRes tk).addTimer).addItem x).cfg.filter = false := by
          unfold addItem addTimer dropPutRes; simp [hf]
        rw [mapS_trigGet g _ hf2, mapS_updLevel]

theorem get_equiv (g : Nat → Nat) (s : PosStore) (p t : Nat) :
    (mapS g s).get p t = (mapS g (s.get p t).1, mapRes g (s.get p t).2) := by
  unfold PosStore.get
  simp only [mapS_getRes, mapS_resEv]
  by_cases hE : s.getRes.isEmpty = true
  · simp only [hE, ↓reduceIte]; rfl
  · have hE' : s.getRes.isEmpty = false := by simpa using hE
    simp only [hE', Bool.false_eq_true, ↓reduceIte]
    cases h2 : s.getRes.find? (fun t' => t'.id == t && t'.proc == p) with
    | none => rfl
    | some tk =>
      simp only
      by_cases h3 : s.resEv.idxOf tk ≥ s.resEv.length
      · simp only [h3, ↓reduceIte]; rfl
      · simp only [h3, ↓reduceIte]
        have hidx : (mapS g s).items[s.resEv.idxOf tk]? = (s.items[s.resEv.idxOf tk]?).map (mapEntry g) := by
          simp [mapS]
        rw [hidx]
        cases h4 : s.items[s.resEv.idxOf tk]? with
        | none => rfl
        | some e =>
          simp only [Option.map_some]
          refine Prod.ext ?_ rfl
          dsimp only
          show PosStore.updLevel (PosStore.trigPut (((mapS g s).dropGetRes tk).takeItem (s.resEv.idxOf tk) (mapItem g e.item))) = _
          rw [mapS_dropGetRes, mapS_takeItem, mapS_trigPut, mapS_updLevel]

theorem reservePut_equiv (g : Nat → Nat) (s : PosStore) (p : Nat) (pr : Int) :
    (mapS g s).reservePut p pr = (mapS g (s.reservePut p pr).1, mapRes g (s.reservePut p pr).2) := by
  unfold PosStore.reservePut
  refine Prod.ext ?_ rfl
  dsimp only
  exact mapS_trigPut g { s with nextTid := s.nextTid + 1, putQ := stableSort (s.putQ ++ [{ id := s.nextTid, proc := p, prio := s.effPrio pr }]) }

theorem reserveGet_equiv (g : Nat → Nat) (s : PosStore) (hf : s.cfg.filter = false) (p : Nat) (pr : Int) (f : Filt) :
    (mapS g s).reserveGet p pr f = (mapS g (s.reserveGet p pr f).1, mapRes g (s.reserveGet p pr f).2) := by
  unfold PosStore.reserveGet
  refine Prod.ext ?_ rfl
  dsimp only
  exact mapS_trigGet g { s with nextTid := s.nextTid + 1, getQ := stableSort (s.getQ ++ [{ id := s.nextTid, proc := p, prio := s.effPrio pr, filt := if s.cfg.filter then f else .always }]) } hf

theorem cancelPut_equiv (g : Nat → Nat) (s : PosStore) (t : Nat) :
    (mapS g s).cancelPut t = (mapS g (s.cancelPut t).1, mapRes g (s.cancelPut t).2) := by
  unfold PosStore.cancelPut
  simp only [mapS_putQ, mapS_putRes]
  cases h1 : findTok s.putQ t with
  | some tk =>
    simp only
    refine Prod.ext ?_ rfl
    dsimp only
    exact mapS_trigPut g { s with putQ := s.putQ.erase tk }
  | none =>
    simp only
    cases h2 : findTok s.putRes t with
    | some tk =>
      simp only
      refine Prod.ext ?_ rfl
      dsimp only
      exact mapS_trigPut g (s.dropPutRes tk)
    | none => rfl

theorem cancelGet_equiv (g : Nat → Nat) (s : PosStore) (hf : s.cfg.filter = false) (t : Nat) :
    (mapS g s).cancelGet t = (mapS g (s.cancelGet t).1, mapRes g (s.cancelGet t).2) := by
  unfold PosStore.cancelGet
  simp only [mapS_getQ, mapS_getRes, mapS_resEv]
  cases h1 : findTok s.getQ t with
  | some tk =>
    simp only
    refine Prod.ext ?_ rfl
    dsimp only
    exact mapS_trigGet g { s with getQ := s.getQ.erase tk } hf
  | none =>
    simp only
    cases h2 : findTok s.getRes t with
    | some tk =>
      simp only
      by_cases h3 : s.resEv.idxOf tk ≥ s.resEv.length
      · simp only [h3, ↓reduceIte]; rfl
      · simp only [h3, ↓reduceIte]
        have hidx : (mapS g s).items[s.resEv.idxOf tk]? = (s.items[s.resEv.idxOf tk]?).map (mapEntry g) := by
          simp [mapS]
        rw [hidx]
        cases h4 : s.items[s.resEv.idxOf tk]? with
        | none => rfl
        | some e =>
          simp only [Option.map_some]
          refine Prod.ext ?_ rfl
          dsimp only
          show PosStore.trigGet (((mapS g s).dropGetRes tk).releaseItem (s.resEv.idxOf tk) (mapEntry g e)) = _
          rw [mapS_dropGetRes, mapS_releaseItem]
          exact mapS_trigGet g _ (by exact hf)
    | none => rfl

theorem adv_equiv (g : Nat → Nat) (s : PosStore) (hf : s.cfg.filter = false) (dt : Nat) : (mapS g s).adv dt = mapS g (s.adv dt) := by
  unfold PosStore.adv
  by_cases h : dt = 0
  · simp only [h, ↓reduceIte]
  · simp only [h, ↓reduceIte]
    show PosStore.setNow (fireAll (s.timers.filter (· < s.now + dt)) (mapS g { s with timers := s.timers.filter (fun d => !(d < s.now + dt)) })) (s.now + dt) = _
    rw [mapS_fireAll g _ _ (by exact hf), mapS_setNow]

theorem settle_equiv (g : Nat → Nat) (s : PosStore) (hf : s.cfg.filter = false) : (mapS g s).settle = mapS g s.settle := by
  unfold PosStore.settle
  show fireAll ((s.timers.filter (· ≤ s.now)).map fun _ => s.now) (mapS g { s with timers := s.timers.filter (fun d => !(d ≤ s.now)) }) = _
  rw [mapS_fireAll g _ _ (by exact hf)]

/-- one operation commutes with the renaming (classes without filters) -/
theorem step_equivariant (g : Nat → Nat) (hg : Function.Injective g) (s : PosStore) (hf : s.cfg.filter = false) (op : Op) :
    (mapS g s).step (mapOp g op) = (mapS g (s.step op).1, mapRes g (s.step op).2) := by
  have hf0 : ({ s with fired := [] } : PosStore).cfg.filter = false := hf
  cases op with
  | reservePut p pr => exact reservePut_equiv g { s with fired := [] } p pr
  | reserveGet p pr f => exact reserveGet_equiv g { s with fired := [] } hf0 p pr f
  | put p t x => exact put_equiv g hg { s with fired := [] } hf0 p t x
  | get p t => exact get_equiv g { s with fired := [] } p t
  | cancelPut t => exact cancelPut_equiv g { s with fired := [] } t
  | cancelGet t => exact cancelGet_equiv g { s with fired := [] } hf0 t
  | adv dt =>
    show ((mapS g { s with fired := [] }).adv dt, Res.unit) = (mapS g (({ s with fired := [] } : PosStore).adv dt), Res.unit)
    rw [adv_equiv g _ hf0]
  | settle =>
    show ((mapS g { s with fired := [] }).settle, Res.unit) = (mapS g (({ s with fired := [] } : PosStore).settle), Res.unit)
    rw [settle_equiv g _ hf0]
  | kstep =>
    show ((mapS g { s with fired := [] }).kstep, Res.unit) = (mapS g (({ s with fired := [] } : PosStore).kstep), Res.unit)
    have : (mapS g { s with fired := [] }).kstep = mapS g ({ s with fired := [] } : PosStore).kstep := by
      unfold PosStore.kstep
      exact mapS_kstepAux g _ _ hf0
    rw [this]

/-- the results of a run, operation by operation -/
def outputs : PosStore → List Op → List Res
  | _, [] => []
  | s, op :: ops => (s.step op).2 :: outputs (s.step op).1 ops

/-- a whole history commutes with the renaming: same final state and same results, up to the renaming -/
theorem run_equivariant (g : Nat → Nat) (hg : Function.Injective g) (ops : List Op) : ∀ (s : PosStore), s.cfg.filter = false →
    run (mapS g s) (ops.map (mapOp g)) = mapS g (run s ops) ∧
    outputs (mapS g s) (ops.map (mapOp g)) = (outputs s ops).map (mapRes g) := by
  induction ops with
  | nil => intro s _; exact ⟨rfl, rfl⟩
  | cons op ops ih =>
    intro s hf
    have h1 := step_equivariant g hg s hf op
    have hf' : (s.step op).1.cfg.filter = false := by rw [step_cfg]; exact hf
    obtain ⟨i1, i2⟩ := ih (s.step op).1 hf'
    constructor
    · show run ((mapS g s).step (mapOp g op)).1 (ops.map (mapOp g)) = mapS g (run (s.step op).1 ops)
      rw [h1]; exact i1
    · show ((mapS g s).step (mapOp g op)).2 :: outputs ((mapS g s).step (mapOp g op)).1 (ops.map (mapOp g)) = _
      rw [h1]
      show mapRes g (s.step op).2 :: outputs (mapS g (s.step op).1) (ops.map (mapOp g)) = _
      rw [i2]; rfl

end PosStore
end FsVerif
