/-
Slotted-conveyor model: successive entries are at least one slot delay apart; items reach the exit in
the order in which they entered.  Proved jointly with the timing invariant `KS` (Proofs/SlotBelt.lean)
and the reservation bound `Room` (Proofs/SlotBelt2.lean).
-/
import FsVerif.Proofs.SlotBelt2
namespace FsVerif
namespace SlotBelt

structure SI (s : SlotBelt) : Prop where
  seqLt : ∀ e ∈ s.entered, e.seq < s.nput
  seqSorted : s.entered.Pairwise (fun a b => a.seq < b.seq)
  sub : s.items.Sublist s.entered
  itemsSorted : s.items.Pairwise (fun a b => a.entry ≤ b.entry)
  aged : ∀ e ∈ s.entered, e.entry + s.cfg.delay ≤ s.now ∨ e ∈ s.items
  grantOK : s.putRes ≠ [] → ∀ e ∈ s.entered, e.entry + s.cfg.delay ≤ s.now
  spaced : s.entered.Pairwise (fun a b => a.entry + s.cfg.delay ≤ b.entry)
  disj : ∀ x ∈ s.readyAt, ∀ e ∈ s.items, e.seq ≠ x.1
  readyLe : ∀ x ∈ s.readyAt, x.2 ≤ s.now
  order : 0 < s.cfg.delay → s.readyAt.Pairwise (fun a b => a.1 < b.1)

theorem init_si (cfg : SlotCfg) : SI (init cfg) := by
  constructor <;> simp [init]

/-- the fields SI reads -/
structure F9 (s s' : SlotBelt) : Prop where
  entered : s'.entered = s.entered
  items : s'.items = s.items
  nput : s'.nput = s.nput
  cfg : s'.cfg = s.cfg
  now : s'.now = s.now
  putRes : s'.putRes = s.putRes
  readyAt : s'.readyAt = s.readyAt

theorem SI.congr {s s' : SlotBelt} (h : SI s) (f : F9 s s') : SI s' := by
  obtain ⟨e1, e2, e3, e4, e5, e6, e7⟩ := f
  obtain ⟨a1, a2, a3, a4, a5, a6, a7, a8, a9, a10⟩ := h
  constructor <;> simp only [e1, e2, e3, e4, e5, e6, e7] at * <;> assumption

theorem pairwise_getLast {α} {R : α → α → Prop} {l : List α} {x : α} (h : l.Pairwise R) (hl : l.getLast? = some x) :
    ∀ e ∈ l, e = x ∨ R e x := by
  induction l with
  | nil => simp at hl
  | cons a as ih =>
    intro e he
    cases as with
    | nil =>
      simp at hl he; left; rw [he, hl]
    | cons b bs =>
      have hl' : (b :: bs).getLast? = some x := by simpa [List.getLast?_cons_cons] using hl
      have hx : x ∈ (b :: bs) := List.mem_of_getLast? hl'
      rcases List.mem_cons.mp he with rfl | he
      · right; exact (List.pairwise_cons.mp h).1 x hx
      · exact ih (List.pairwise_cons.mp h).2 hl' e he

/-- granting: `admits` + the ageing invariant give "every entry is at least one slot delay old" -/
theorem SI.admits_aged {s : SlotBelt} (h : SI s) (ha : s.admits = true) : ∀ e ∈ s.entered, e.entry + s.cfg.delay ≤ s.now := by
  intro e he
  rcases h.aged e he with h1 | h1
  · exact h1
  · unfold admits at ha
    simp only [Bool.and_eq_true, decide_eq_true_eq] at ha
    obtain ⟨_, hsp⟩ := ha
    split at hsp
    · rename_i hn
      have : s.items = [] := List.getLast?_eq_none_iff.mp hn
      rw [this] at h1; cases h1
    · rename_i l hl
      simp only [decide_eq_true_eq] at hsp
      rcases pairwise_getLast h.itemsSorted hl e h1 with rfl | hle
      · exact hsp
      · omega

theorem SI.trigPut {s : SlotBelt} (h : SI s) : SI s.trigPut := by
  unfold SlotBelt.trigPut
  split
  · exact h
  · split
    · rename_i had
      have hag := h.admits_aged had
      obtain ⟨a1, a2, a3, a4, a5, a6, a7, a8, a9, a10⟩ := h
      exact ⟨a1, a2, a3, a4, a5, fun _ => hag, a7, a8, a9, a10⟩
    · exact h

theorem SI.trigGet {s : SlotBelt} (h : SI s) : SI s.trigGet := by
  unfold SlotBelt.trigGet
  split
  · exact h
  · split
    · split <;> exact h.congr ⟨rfl, rfl, rfl, rfl, rfl, rfl, rfl⟩
    · exact h

theorem SI.updLevel {s : SlotBelt} (h : SI s) : SI s.updLevel := h.congr ⟨rfl, rfl, rfl, rfl, rfl, rfl, rfl⟩
theorem SI.sched {s : SlotBelt} (h : SI s) (t : Nat) (u : Bool) (k : SKind) : SI (s.sched t u k) :=
  h.congr ⟨rfl, rfl, rfl, rfl, rfl, rfl, rfl⟩

theorem eq_nil_of_erase_one {α} [DecidableEq α] {l : List α} {a : α} (h1 : l.length ≤ 1) (h2 : a ∈ l) : l.erase a = [] := by
  have := erase_length_mem h2
  exact List.eq_nil_of_length_eq_zero (by omega)

theorem SI.put {s : SlotBelt} (h : SI s) (hk : KS s) (hr : Room s) (p tid : Nat) (x : Item) : SI (s.put p tid x).1 := by
  unfold SlotBelt.put
  split
  · exact h
  · split
    · exact h
    · rename_i t ht
      have hm : t ∈ s.putRes := mem_of_find? ht
      have hne : s.putRes ≠ [] := List.ne_nil_of_mem hm
      have hnil : s.putRes.erase t = [] := eq_nil_of_erase_one hr.one hm
      have hold := h.grantOK hne
      simp only
      split
      · refine SI.trigGet (SI.sched (SI.updLevel ?_) _ _ _)
        obtain ⟨a1, a2, a3, a4, a5, a6, a7, a8, a9, a10⟩ := h
        refine ⟨?_, ?_, ?_, ?_, ?_, ?_, ?_, ?_, a9, a10⟩
        · intro e he
          rcases List.mem_append.mp he with he | he
          · have := a1 e he; simp only; omega
          · simp at he; subst he; simp
        · rw [List.pairwise_append]
          refine ⟨a2, by simp, ?_⟩
          intro a ha b hb
          simp at hb; subst hb; exact a1 a ha
        · exact List.Sublist.append a3 (List.Sublist.refl _)
        · rw [List.pairwise_append]
          refine ⟨a4, by simp, ?_⟩
          intro a ha b hb
          simp at hb; subst hb
          exact hk.entryLe a (a3.subset ha)
        · intro e he
          rcases List.mem_append.mp he with he | he
          · rcases a5 e he with h1 | h1
            · left; exact h1
            · right; exact List.mem_append_left _ h1
          · right; exact List.mem_append_right _ he
        · intro hc; simp only [hnil] at hc; exact absurd rfl hc
        · rw [List.pairwise_append]
          refine ⟨a7, by simp, ?_⟩
          intro a ha b hb
          simp at hb; subst hb
          exact hold a ha
        · intro y hy e he
          rcases List.mem_append.mp he with he | he
          · exact a8 y hy e he
          · simp at he; subst he
            simp only
            obtain ⟨e', he', hs, _⟩ := hk.readyOK y hy
            have := a1 e' he'
            omega
      · obtain ⟨a1, a2, a3, a4, a5, a6, a7, a8, a9, a10⟩ := h
        refine ⟨a1, a2, a3, a4, a5, ?_, a7, a8, a9, a10⟩
        intro hc; simp only [hnil] at hc; exact absurd rfl hc

theorem SI.get {s : SlotBelt} (h : SI s) (p tid : Nat) : SI (s.get p tid).1 := by
  unfold SlotBelt.get
  repeat' split
  all_goals first
    | exact h
    | exact h.congr ⟨rfl, rfl, rfl, rfl, rfl, rfl, rfl⟩
    | exact SI.trigPut (SI.updLevel (h.congr ⟨rfl, rfl, rfl, rfl, rfl, rfl, rfl⟩))

theorem SI.dropRes {s : SlotBelt} (h : SI s) (t : Tok) : SI { s with putRes := s.putRes.erase t } := by
  obtain ⟨a1, a2, a3, a4, a5, a6, a7, a8, a9, a10⟩ := h
  refine ⟨a1, a2, a3, a4, a5, ?_, a7, a8, a9, a10⟩
  intro hc
  apply a6
  intro hn; simp only [hn, List.erase_nil] at hc; exact hc rfl

theorem SI.cancelPut {s : SlotBelt} (h : SI s) (tid : Nat) : SI (s.cancelPut tid).1 := by
  unfold SlotBelt.cancelPut
  split
  · exact SI.trigPut (h.congr ⟨rfl, rfl, rfl, rfl, rfl, rfl, rfl⟩)
  · split
    · exact SI.trigPut (h.dropRes _)
    · exact h

theorem SI.cancelGet {s : SlotBelt} (h : SI s) (tid : Nat) : SI (s.cancelGet tid).1 := by
  unfold SlotBelt.cancelGet
  repeat' split
  all_goals first
    | exact h
    | exact h.congr ⟨rfl, rfl, rfl, rfl, rfl, rfl, rfl⟩
    | exact SI.trigGet (h.congr ⟨rfl, rfl, rfl, rfl, rfl, rfl, rfl⟩)

theorem pairwise_trichotomy {α} {R : α → α → Prop} {l : List α} (h : l.Pairwise R) :
    ∀ a ∈ l, ∀ b ∈ l, a = b ∨ R a b ∨ R b a := by
  induction l with
  | nil => intro a ha; cases ha
  | cons x xs ih =>
    intro a ha b hb
    have hx := (List.pairwise_cons.mp h).1
    rcases List.mem_cons.mp ha with ha | ha
    · rcases List.mem_cons.mp hb with hb | hb
      · left; rw [ha, hb]
      · right; left; rw [ha]; exact hx b hb
    · rcases List.mem_cons.mp hb with hb | hb
      · right; right; rw [hb]; exact hx a ha
      · exact ih (List.pairwise_cons.mp h).2 a ha b hb

/-- the entry with a given ordinal is unique -/
theorem SI.seq_inj {s : SlotBelt} (h : SI s) {a b : SEntry} (ha : a ∈ s.entered) (hb : b ∈ s.entered) (hs : a.seq = b.seq) : a = b := by
  rcases pairwise_trichotomy h.seqSorted a ha b hb with h1 | h1 | h1
  · exact h1
  · omega
  · omega

/-- entries with smaller ordinal entered at least one slot delay earlier -/
theorem SI.entry_lt {s : SlotBelt} (h : SI s) {a b : SEntry} (ha : a ∈ s.entered) (hb : b ∈ s.entered) (hs : a.seq < b.seq) :
    a.entry + s.cfg.delay ≤ b.entry := by
  have hp : s.entered.Pairwise (fun a b => a.seq < b.seq ∧ a.entry + s.cfg.delay ≤ b.entry) :=
    List.Pairwise.and h.seqSorted h.spaced
  rcases pairwise_trichotomy hp a ha b hb with h1 | h1 | h1
  · subst h1; omega
  · exact h1.2
  · omega

theorem SI.arrive {s : SlotBelt} (h : SI s) (q : Nat)
    (hq : ∃ e ∈ s.entered, e.seq = q ∧ s.now = e.entry + s.cfg.cap * s.cfg.delay)
    (hk : KS s) : SI (s.arrive q) := by
  unfold SlotBelt.arrive
  split
  · exact h.congr ⟨rfl, rfl, rfl, rfl, rfl, rfl, rfl⟩
  · rename_i e he
    have hm : e ∈ s.items := mem_of_find? he
    have hme : e ∈ s.entered := h.sub.subset hm
    have hseq : e.seq = q := by
      have := List.find?_some he; simpa using this
    obtain ⟨e', he', hs', hnow⟩ := hq
    have hee : e' = e := h.seq_inj he' hme (by omega)
    subst hee
    have hcap := hk.capPos e' hme
    have hold : e'.entry + s.cfg.delay ≤ s.now := by
      have : s.cfg.delay ≤ s.cfg.cap * s.cfg.delay := Nat.le_mul_of_pos_left _ hcap
      omega
    have hsub : (s.items.erase e').Sublist s.items := List.erase_sublist
    -- the common part: items := items.erase e
    have core : SI { s with items := s.items.erase e' } := by
      obtain ⟨a1, a2, a3, a4, a5, a6, a7, a8, a9, a10⟩ := h
      refine ⟨a1, a2, hsub.trans a3, a4.sublist hsub, ?_, a6, a7, ?_, a9, a10⟩
      · intro x hx
        rcases a5 x hx with h1 | h1
        · left; exact h1
        · by_cases hxe : x = e'
          · subst hxe; left; exact hold
          · right; exact (List.mem_erase_of_ne hxe).mpr h1
      · intro y hy x hx; exact a8 y hy x (hsub.subset hx)
    simp only
    split
    · refine SI.trigPut (SI.trigGet ?_)
      obtain ⟨a1, a2, a3, a4, a5, a6, a7, a8, a9, a10⟩ := core
      refine ⟨a1, a2, a3, a4, a5, a6, a7, ?_, ?_, ?_⟩
      · intro y hy x hx
        rcases List.mem_append.mp hy with hy | hy
        · exact a8 y hy x hx
        · simp at hy; subst hy
          simp only
          -- x is in items.erase e', ordinals in items are pairwise different
          intro hc
          have hxi : x ∈ s.items := hsub.subset hx
          have hxe : x = e' := h.seq_inj (h.sub.subset hxi) hme (by omega)
          subst hxe
          have hnd : s.items.Nodup := by
            have := (h.seqSorted.sublist h.sub)
            exact this.imp (fun hlt heq => by subst heq; omega)
          exact (List.Nodup.not_mem_erase hnd) hx
      · intro y hy
        rcases List.mem_append.mp hy with hy | hy
        · exact a9 y hy
        · simp at hy; subst hy; exact Nat.le_refl _
      · intro hd
        have hd' : 0 < s.cfg.delay := hd
        rw [List.pairwise_append]
        refine ⟨a10 hd, by simp, ?_⟩
        intro y hy z hz
        simp at hz; subst hz
        simp only
        obtain ⟨ey, hey, hys, hyt⟩ := hk.readyOK y hy
        have hyle := h.readyLe y hy
        have hne : e'.seq ≠ y.1 := h.disj y hy e' hm
        rcases Nat.lt_or_ge y.1 q with hlt | hge
        · exact hlt
        · exfalso
          have hlt' : e'.seq < ey.seq := by omega
          have := h.entry_lt hme hey hlt'
          omega
    · exact core.congr ⟨rfl, rfl, rfl, rfl, rfl, rfl, rfl⟩

theorem SI.handle {s : SlotBelt} (h : SI s) (hk : KS s) (k : SKind) (hn : SEvNow s k) : SI (s.handle k) := by
  unfold SlotBelt.handle
  cases k with
  | init q =>
    simp only
    obtain ⟨e, he, hseq, hnow⟩ := hn.1 q rfl
    split
    · exact h.sched _ _ _
    · rename_i hd
      have hd0 : s.cfg.delay = 0 := by omega
      split
      · exact h.sched _ _ _
      · exact h.arrive q ⟨e, he, hseq, by rw [hd0]; simpa using hnow⟩ hk
  | ph1 q =>
    simp only
    obtain ⟨e, he, hseq, hnow⟩ := hn.2.1 q rfl
    have hcap := hk.capPos e he
    have hmul := pred_mul_add s.cfg.cap s.cfg.delay hcap
    have hk1 : KS (s.sched s.now false .retrig) := KS.sched hk _ _ _ (Nat.le_refl _) (sevOK_other _ _ rfl)
    split
    · exact (h.sched _ _ _).sched _ _ _
    · refine (h.sched _ _ _).arrive q ⟨e, he, hseq, ?_⟩ hk1
      show s.now = e.entry + s.cfg.cap * s.cfg.delay
      omega
  | retrig => exact h.trigPut
  | ph2 q => exact h.arrive q (hn.2.2 q rfl) hk

theorem SI.timeStep {s : SlotBelt} (h : SI s) (t : Nat) (ht : s.now ≤ t) : SI { s with now := t } := by
  obtain ⟨a1, a2, a3, a4, a5, a6, a7, a8, a9, a10⟩ := h
  refine ⟨a1, a2, a3, a4, ?_, ?_, a7, a8, ?_, a10⟩
  · intro e he
    rcases a5 e he with h1 | h1
    · left; simp only; omega
    · right; exact h1
  · intro hc e he; have := a6 hc e he; simp only; omega
  · intro y hy; have := a9 y hy; simp only; omega

theorem SI.ev {s : SlotBelt} (h : SI s) (hk : KS s) : SI s.ev := by
  unfold SlotBelt.ev
  split
  · exact h
  · rename_i e0 q hq
    have hmem : e0 ∈ s.queue := by rw [hq]; exact List.mem_cons_self
    have hle : s.now ≤ e0.time := hk.clock e0 hmem
    have hmax : max s.now e0.time = e0.time := Nat.max_eq_right hle
    have hs := hk.tsorted; rw [hq] at hs
    have hk0 : KS { s with queue := q, now := max s.now e0.time } := by
      obtain ⟨a1, a2, a3, a4, a5, a6⟩ := hk
      refine ⟨(List.pairwise_cons.mp hs).2, ?_, ?_, a4, ?_, a6⟩
      · intro ev hev; simp only [hmax]; exact (List.pairwise_cons.mp hs).1 ev hev
      · intro ev hev; exact a3 ev (by rw [hq]; exact List.mem_cons_of_mem _ hev)
      · intro e he; simp only [hmax]; exact Nat.le_trans (a5 e he) hle
    have h0 : SI { s with queue := q, now := max s.now e0.time } :=
      (h.timeStep (max s.now e0.time) (Nat.le_max_left _ _)).congr ⟨rfl, rfl, rfl, rfl, rfl, rfl, rfl⟩
    refine h0.handle hk0 e0.kind ?_
    have het := hk.evOK e0 hmem
    refine ⟨?_, ?_, ?_⟩
    · intro m hm; obtain ⟨e, he, h1, h2⟩ := het.1 m hm; exact ⟨e, he, h1, by simp only [hmax]; exact h2⟩
    · intro m hm; obtain ⟨e, he, h1, h2⟩ := het.2.1 m hm; exact ⟨e, he, h1, by simp only [hmax]; exact h2⟩
    · intro m hm; obtain ⟨e, he, h1, h2⟩ := het.2.2 m hm; exact ⟨e, he, h1, by simp only [hmax]; exact h2⟩

theorem SI.adv {s : SlotBelt} (h : SI s) (dt : Nat) : SI (s.adv dt) := by
  unfold SlotBelt.adv
  split
  · split
    · exact h.congr ⟨rfl, rfl, rfl, rfl, rfl, rfl, rfl⟩
    · exact h.timeStep _ (Nat.le_add_right _ _)
  · exact h.timeStep _ (Nat.le_add_right _ _)

/-- the three invariants together -/
structure Inv (s : SlotBelt) : Prop where
  ks : KS s
  room : Room s
  si : SI s

theorem Inv.step {s : SlotBelt} (h : Inv s) (op : Op) : Inv (s.step op).1 := by
  refine ⟨h.ks.step op, h.room.step op, ?_⟩
  obtain ⟨hk, hr, hs⟩ := h
  unfold SlotBelt.step
  have hs' : SI { s with fired := [], newReady := [] } := hs.congr ⟨rfl, rfl, rfl, rfl, rfl, rfl, rfl⟩
  have hk' : KS { s with fired := [], newReady := [] } := hk.congr rfl rfl rfl rfl rfl
  have hr' : Room { s with fired := [], newReady := [] } := hr.congr rfl rfl rfl rfl
  cases op with
  | reservePut p => exact SI.trigPut (hs'.congr ⟨rfl, rfl, rfl, rfl, rfl, rfl, rfl⟩)
  | reserveGet p => exact SI.trigGet (hs'.congr ⟨rfl, rfl, rfl, rfl, rfl, rfl, rfl⟩)
  | reservePutP p pr => exact SI.trigPut (hs'.congr ⟨rfl, rfl, rfl, rfl, rfl, rfl, rfl⟩)
  | reserveGetP p pr => exact SI.trigGet (hs'.congr ⟨rfl, rfl, rfl, rfl, rfl, rfl, rfl⟩)
  | put p t x => exact hs'.put hk' hr' p t x
  | get p t => exact hs'.get p t
  | cancelPut t => exact hs'.cancelPut t
  | cancelGet t => exact hs'.cancelGet t
  | adv dt => exact hs'.adv dt
  | ev => exact hs'.ev hk'
  | final => exact hs'.updLevel

theorem init_inv (cfg : SlotCfg) : Inv (init cfg) := ⟨init_ks cfg, init_room cfg, init_si cfg⟩

theorem run_inv (ops : List Op) : ∀ (s : SlotBelt), Inv s → Inv (s.run ops) := by
  induction ops with
  | nil => intro s h; exact h
  | cons op ops ih => intro s h; exact ih _ (h.step op)

end SlotBelt
end FsVerif
