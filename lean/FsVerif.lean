-- Root of the `FsVerif` library: models, proofs, property theorems.
import FsVerif.Model.Basic
import FsVerif.Model.PosStore
import FsVerif.Model.BufStore
import FsVerif.Model.PrioReq
import FsVerif.Model.FleetStore
import FsVerif.Model.SlotBelt
import FsVerif.Model.CBelt
import FsVerif.Model.Node.Source
import FsVerif.Model.Node.Machine
import FsVerif.Model.Node.Pack
import FsVerif.Model.Config
