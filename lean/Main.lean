/-
Line-protocol driver: reads operation lines on stdin, runs the executable models, prints one
result line per operation.  Used by the correspondence check (`harness/`), which runs the real
Python code on the same lines and diffs the two streams.
-/
import FsVerif.Model.Basic
import FsVerif.Model.PosStore
import FsVerif.Model.BufStore
import FsVerif.Model.PrioReq
import FsVerif.Model.FleetStore
import FsVerif.Model.SlotBelt
import FsVerif.Model.CBelt
import FsVerif.Model.Node.Source
import FsVerif.Model.Node.Machine
import FsVerif.Model.Node.Pack
import FsVerif.Model.Config
open FsVerif

def parseInt (s : String) : Option Int := s.toInt?
def parseNat (s : String) : Option Nat := s.toNat?

def showFired (l : List (Nat × Nat)) : String := " ".intercalate (l.map fun p => s!"{p.1}@{p.2}")

def parseFilt (s : String) : Option Filt :=
  match s.splitOn ":" with
  | ["dflt"] => some .dflt
  | ["always"] => some .always
  | ["never"] => some .never
  | ["even"] => some .idEven
  | ["kind", k] => k.toNat?.map .kindEq
  | _ => none

def parseCap (s : String) : Option (Option Nat) :=
  if s == "inf" then some none else s.toNat?.map some

inductive M where
  | none
  | pos (s : PosStore)
  | buf (s : BufStore)
  | prq (s : PrioReq)
  | src (s : SrcState)
  | snk (s : SinkState)
  | mac (s : MacState)
  | pack (s : PackState)
  | fleet (s : FleetStore)
  | slot (s : SlotBelt)
  | cbelt (s : CBelt)

def showRes : PosStore.Res → String
  | .ok => "ok" | .tok i => s!"tok {i}" | .item x => s!"item {x.id}"
  | .err e => s!"err {e.name}" | .unit => "-"

def posOp (w : List String) : Option PosStore.Op :=
  match w with
  | ["rp", p, pr] => do pure (.reservePut (← parseNat p) (← parseInt pr))
  | ["rg", p, pr, f] => do pure (.reserveGet (← parseNat p) (← parseInt pr) (← parseFilt f))
  | ["put", p, t, i, k] => do pure (.put (← parseNat p) (← parseNat t) { id := (← parseNat i), kind := (← parseNat k) })
  | ["get", p, t] => do pure (.get (← parseNat p) (← parseNat t))
  | ["cp", t] => do pure (.cancelPut (← parseNat t))
  | ["cg", t] => do pure (.cancelGet (← parseNat t))
  | ["adv", d] => do pure (.adv (← parseNat d))
  | ["settle"] => some .settle
  | ["kstep"] => some .kstep
  | _ => none

def showResB : BufStore.Res → String
  | .ok => "ok" | .tok i => s!"tok {i}" | .item x => s!"item {x.id}"
  | .err e => s!"err {e.name}" | .unit => "-"

def bufOp (w : List String) : Option BufStore.Op :=
  match w with
  | ["rp", p] => do pure (.reservePut (← parseNat p))
  | ["rg", p] => do pure (.reserveGet (← parseNat p))
  | ["rp", p, _] => do pure (.reservePut (← parseNat p))
  | ["rg", p, _, _] => do pure (.reserveGet (← parseNat p))
  | ["put", p, t, i, k, d] => do pure (.put (← parseNat p) (← parseNat t) { id := (← parseNat i), kind := (← parseNat k) } (← parseNat d))
  | ["get", p, t] => do pure (.get (← parseNat p) (← parseNat t))
  | ["cp", t] => do pure (.cancelPut (← parseNat t))
  | ["cg", t] => do pure (.cancelGet (← parseNat t))
  | ["adv", d] => do pure (.adv (← parseNat d))
  | ["settle"] => some .settle
  | ["kstep"] => some .kstep
  | ["final"] => some .final
  | _ => none

def fleetOp (w : List String) : Option FleetStore.Op :=
  match w with
  | ["rp", p] => do pure (.reservePut (← parseNat p))
  | ["rg", p] => do pure (.reserveGet (← parseNat p))
  | ["rp", p, pr] => do pure (.reservePutP (← parseNat p) (← parseInt pr))          -- FleetStore.reserve_put(priority=pr)
  | ["rg", p, pr, _] => do pure (.reserveGetP (← parseNat p) (← parseInt pr))
  | ["put", p, t, i, k, _] => do pure (.put (← parseNat p) (← parseNat t) { id := (← parseNat i), kind := (← parseNat k) })
  | ["get", p, t] => do pure (.get (← parseNat p) (← parseNat t))
  | ["cp", t] => do pure (.cancelPut (← parseNat t))
  | ["cg", t] => do pure (.cancelGet (← parseNat t))
  | ["adv", d] => do pure (.adv (← parseNat d))
  | ["ev"] => some .ev
  | ["final"] => some .final
  | _ => none

def slotOp (w : List String) : Option SlotBelt.Op :=
  match w with
  | ["rp", p] => do pure (.reservePut (← parseNat p))
  | ["rg", p] => do pure (.reserveGet (← parseNat p))
  | ["rp", p, pr] => do pure (.reservePutP (← parseNat p) (← parseInt pr))          -- slotted BeltStore.reserve_put(priority=pr)
  | ["rg", p, pr, _] => do pure (.reserveGetP (← parseNat p) (← parseInt pr))
  | ["put", p, t, i, k, _] => do pure (.put (← parseNat p) (← parseNat t) { id := (← parseNat i), kind := (← parseNat k) })
  | ["get", p, t] => do pure (.get (← parseNat p) (← parseNat t))
  | ["cp", t] => do pure (.cancelPut (← parseNat t))
  | ["cg", t] => do pure (.cancelGet (← parseNat t))
  | ["adv", d] => do pure (.adv (← parseNat d))
  | ["ev"] => some .ev
  | ["final"] => some .final
  | _ => none

def cbeltOp (w : List String) : Option CBelt.Op :=
  match w with
  | ["rp", p] => do pure (.reservePut (← parseNat p))
  | ["rg", p] => do pure (.reserveGet (← parseNat p))
  | ["rp", p, _] => do pure (.reservePut (← parseNat p))
  | ["rg", p, _, _] => do pure (.reserveGet (← parseNat p))
  | ["put", p, t, i, k, _] => do pure (.put (← parseNat p) (← parseNat t) { id := (← parseNat i), kind := (← parseNat k) })
  | ["get", p, t] => do pure (.get (← parseNat p) (← parseNat t))
  | ["cp", t] => do pure (.cancelPut (← parseNat t))
  | ["cg", t] => do pure (.cancelGet (← parseNat t))
  | ["adv", d] => do pure (.adv (← parseNat d))
  | ["ev"] => some .ev
  | ["final"] => some .final
  | _ => none

def showResC : CBelt.Res → String
  | .ok => "ok" | .tok i => s!"tok {i}" | .item x => s!"item {x.id}"
  | .err e => s!"err {e.name}" | .unit => "-"

def showResS : SlotBelt.Res → String
  | .ok => "ok" | .tok i => s!"tok {i}" | .item x => s!"item {x.id}"
  | .err e => s!"err {e.name}" | .unit => "-"

def prqOp (w : List String) : Option PrioReq.Op :=
  match w with
  | ["pput", p, i, k] => do pure (.put (← parseInt p) { id := (← parseNat i), kind := (← parseNat k) })
  | ["pget", p] => do pure (.get (← parseInt p))
  | ["cancel", i] => do pure (.cancel (← parseNat i))
  | ["kstep"] => some .kstep
  | ["settle"] => some .settle
  | _ => none

def showPFired (l : List (Nat × Option Item)) : String :=
  " ".intercalate (l.map fun p => match p.2 with | some x => s!"{p.1}:{x.id}" | none => s!"{p.1}")

def parsePol (s : String) : Option Pol :=
  match s.splitOn ":" with
  | ["fa"] => some .fa | ["rr"] => some .rr | ["rnd"] => some .rnd | ["user"] => some .user
  | ["const", k] => k.toInt?.map .const
  | _ => none

def parseNatList (s : String) : List Nat := (s.splitOn ",").filterMap String.toNat?
def parseIntList (s : String) : List Int := (s.splitOn ",").filterMap String.toInt?

def parseItems (s : String) : List GotItem :=
  (s.splitOn ",").filterMap fun x =>
    match x.splitOn "@" with
    | [i, c, p, cont, woke] => match i.toNat?, c.toNat? with
      | some i, some c => some { id := i, created := c, pallet := p == "1",
                                 content := (cont.splitOn "+").filterMap String.toNat?,
                                 woke := (woke.splitOn "+").filterMap String.toNat? }
      | _, _ => none
    | [i, c] => match i.toNat?, c.toNat? with
      | some i, some c => some { id := i, created := c }
      | _, _ => none
    | [i] => i.toNat?.map fun i => { id := i }
    | _ => none

/-- `trig=… draws=… sels=… cans=… items=…` (any subset, any order) -/
def parseAns (ws : List String) : Ans :=
  ws.foldl (fun a w =>
    match w.splitOn "=" with
    | ["trig", v] => { a with trig := parseNatList v }
    | ["draws", v] => { a with draws := parseNatList v }
    | ["sels", v] => { a with sels := parseIntList v }
    | ["cans", v] => { a with cans := (parseNatList v).map (· != 0) }
    | ["items", v] => { a with items := parseItems v }
    | _ => a) {}

def showCalls (cs : List Call) : String := "; ".intercalate (cs.map Call.show)

def parseNum : String → Option NumKind
  | "neg" => some .neg | "zero" => some .zero | "pos" => some .pos | "none" => some .noneVal | "notnum" => some .notNum | _ => none
def parseCapK : String → Option CapKind
  | "neg" => some .neg | "zero" => some .zero | "pos" => some .pos | "notint" => some .notInt | _ => none
def parsePolK : String → Option PolKind
  | "fa" => some .fa | "rr" => some .rr | "rnd" => some .rnd | "constok" => some .constOk | "constbad" => some .constBad
  | "badstring" => some .badString | "none" => some .noneVal | "callable" => some .callable | _ => none

def validateLine (w : List String) : String :=
  match w with
  | [cap, mode, bd, iat, blk, sp, pd, su, ip, op, sc, mi, mo, kc] =>
    match parseCapK cap, parseNum bd, parseNum iat, parsePolK sp, parseNum pd, parseNum su, parsePolK ip, parsePolK op with
    | some cap, some bd, some iat, some sp, some pd, some su, some ip, some op =>
      (validate { cap := cap, modeOK := mode == "1", bufDelay := bd, iat := iat, srcBlocking := blk == "1", srcPol := sp,
                  pd := pd, setup := su, inPol := ip, outPol := op, srcConnected := sc == "1", machIn := mi == "1",
                  machOut := mo == "1", sinkConnected := kc == "1" }).show
    | _, _, _, _, _, _, _, _ => "bad-op"
  | _ => "bad-op"

def stepLine (m : M) (line : String) : M × String :=
  let w := (line.trimAscii.toString.splitOn " ").filter (· ≠ "")
  match w with
  | [] => (m, "")
  | ["end"] => (.none, "end")
  | "validate" :: rest => (m, validateLine rest)
  | ["new", "pos", cap, prio, filt, td] =>
    match parseCap cap, parseNat prio, parseNat filt, parseNat td with
    | some c, some p, some f, some d =>
      (.pos (PosStore.init { cap := c, prio := p != 0, filter := f != 0, trigDelay := d }), "new")
    | _, _, _, _ => (m, "bad-op")
  | ["new", "source", idx, blk, pol, nout] =>
    match parseNat idx, parseNat blk, parsePol pol, parseNat nout with
    | some i, some b, some p, some n => (.src (SrcState.init { nodeIdx := i, blocking := b != 0, pol := p, nout := n }), "new")
    | _, _, _, _ => (m, "bad-op")
  | ["new", "source", idx, blk, pol, nout, setup] =>
    match parseNat idx, parseNat blk, parsePol pol, parseNat nout, parseNat setup with
    | some i, some b, some p, some n, some su => (.src (SrcState.init { nodeIdx := i, blocking := b != 0, pol := p, nout := n, setup := su }), "new")
    | _, _, _, _, _ => (m, "bad-op")
  | ["new", "sink", nin] =>
    match parseNat nin with
    | some n => (.snk (SinkState.init n), "new")
    | none => (m, "bad-op")
  | ["new", "machine", idx, wc, setup, blk, ip, op, nin, nout] =>
    match parseNat idx, parseNat wc, parseNat setup, parseNat blk, parsePol ip, parsePol op, parseNat nin, parseNat nout with
    | some i, some w, some su, some b, some ip, some op, some ni, some no =>
      (.mac (MacState.init { nodeIdx := i, wc := w, setup := su, blocking := b != 0, inPol := ip, outPol := op, nin := ni, nout := no }), "new")
    | _, _, _, _, _, _, _, _ => (m, "bad-op")
  | ["new", "pack", kind, idx, setup, blk, ip, op, nin, nout, target] =>
    match parseNat idx, parseNat setup, parseNat blk, parsePol ip, parsePol op, parseNat nin, parseNat nout with
    | some i, some su, some b, some ip, some op, some ni, some no =>
      (.pack (PackState.init { kind := if kind == "splitter" then .splitter else .combiner, nodeIdx := i, setup := su,
                               blocking := b != 0, inPol := ip, outPol := op, nin := ni, nout := no,
                               target := (target.splitOn "+").filterMap String.toNat? }), "new")
    | _, _, _, _, _, _, _ => (m, "bad-op")
  | ["new", "fleet", cap, delay, transit] =>
    match parseCap cap, parseNat delay, parseNat transit with
    | some c, some d, some tr => (.fleet (FleetStore.init { cap := c, delay := d, transit := tr }), "new")
    | _, _, _ => (m, "bad-op")
  | ["new", "slot", cap, delay, _] =>
    match parseNat cap, parseNat delay with
    | some c, some d => (.slot (SlotBelt.init { cap := c, delay := d }), "new")
    | _, _ => (m, "bad-op")
  | ["new", "cbelt", cap, p1, acc] =>
    match parseNat cap, parseNat p1 with
    | some c, some d => (.cbelt (CBelt.init { cap := c, p1 := d, acc := acc != "0" }), "new")
    | _, _ => (m, "bad-op")
  | ["new", "slot", cap, delay] =>
    match parseNat cap, parseNat delay with
    | some c, some d => (.slot (SlotBelt.init { cap := c, delay := d }), "new")
    | _, _ => (m, "bad-op")
  | ["new", "prq", cap] =>
    match parseNat cap with
    | some c => (.prq (PrioReq.init c), "new")
    | none => (m, "bad-op")
  | ["new", fam, cap, mode] =>
    if fam == "buf" || fam == "bufedge" then
      match parseCap cap with
      | some c => (.buf (BufStore.init { cap := c, mode := if mode == "LIFO" then .lifo else .fifo }), "new")
      | none => (m, "bad-op")
    else (m, "bad-op")
  | _ =>
    match m with
    | .none => (m, "bad-op")
    | .src s =>
      match w with
      | "act" :: p :: t :: rest =>
        match parseNat p, parseNat t with
        | some p, some t =>
          let (s', cs) := s.step p t (parseAns rest)
          (.src s', s!"{showCalls cs} || {s'.stats}")
        | _, _ => (m, "bad-op")
      | _ => (m, "bad-op")
    | .snk s =>
      match w with
      | "act" :: p :: t :: rest =>
        match parseNat p, parseNat t with
        | some p, some t =>
          let (s', cs) := s.step p t (parseAns rest)
          (.snk s', s!"{showCalls cs} || {s'.stats}")
        | _, _ => (m, "bad-op")
      | _ => (m, "bad-op")
    | .mac s =>
      match w with
      | "act" :: p :: t :: rest =>
        match parseNat p, parseNat t with
        | some p, some t =>
          let (s', cs) := s.step p t (parseAns rest)
          (.mac s', s!"{showCalls cs} || {s'.stats}")
        | _, _ => (m, "bad-op")
      | _ => (m, "bad-op")
    | .pack s =>
      match w with
      | ["final", t] =>
        match parseNat t with
        | some t => match s.finalize t with
          | some s' => (.pack s', s!"final || {s'.stats}")
          | none => (m, "final ValueError")
        | none => (m, "bad-op")
      | "act" :: p :: t :: rest =>
        match parseNat p, parseNat t with
        | some p, some t =>
          let (s', cs) := s.step p t (parseAns rest)
          (.pack s', s!"{showCalls cs} || {s'.stats}")
        | _, _ => (m, "bad-op")
      | _ => (m, "bad-op")
    | .prq s =>
      match prqOp w with
      | some op =>
        let s' := s.step op
        (.prq s', if s'.err then "err ValueError" else s!"req {s.nextId} | {showPFired s'.fired} | {s'.items.length}")
      | none => (m, "bad-op")
    | .slot s =>
      match w with
      | ["stat"] => (m, s!"stat {s.avgNum} {s.avgDen} {s.level} {s.now}")
      | ["probe", "occ"] => (m, s!"probe {s.level}")
      | ["probe", "ready"] => (m, s!"probe {showNats (s.ready.map (·.item.id))}")
      | ["probe", "mode"] => (m, "probe IDLE_STATE False")    -- the state machine never leaves IDLE (D9)
      | ["probe", _] => (m, "probe skip")
      | _ =>
        match slotOp w with
        | some op =>
          let (s', r) := s.step op
          let head := if op == .ev then s!"t={s'.now}" else showResS r
          (.slot s', s!"{head} | {showFired s'.fired} | {showNats s'.newReady}" ++ (if s'.crashed then " CRASHED" else "") ++ (if s'.flagged then " FLAGGED" else ""))
        | none => (m, "bad-op")
    | .cbelt s =>
      if s.gaveUp then (m, "GAVEUP") else
      match w with
      | ["stat"] => (m, s!"stat {s.avgNum} {s.avgDen} {s.level} {s.now}")
      | ["probe", "occ"] => (m, s!"probe {s.level}")
      | ["probe", "ready"] => (m, s!"probe {showNats (s.ready.map (·.item.id))}")
      | ["probe", "mode"] => (m, s!"probe {s.st.name} {if s.noacc then "True" else "False"}")
      | ["probe", "pat"] => (m, s!"probe {s.showPattern}")
      | ["probe", "stuck"] => (m, s!"probe {s.stuck.length}")
      | ["probe", _] => (m, "probe skip")
      | _ =>
        match cbeltOp w with
        | some op =>
          let (s', r) := s.step op
          let head := if op == .ev then s!"t={s'.now}" else showResC r
          if s'.gaveUp then (.cbelt s', "GAVEUP") else
          -- travel bookkeeping of the library, as the anchors name it: for every item that reached the exit its entry time
          -- and total interruption time; for an accepted put the belt travel of the item that entered before it
          let acct := s'.newReady.map (fun id =>
            match s'.ready.find? (fun it => it.item.id == id) with
            | some it => s!"a{id}:{it.entry}:{it.totalInt}"
            | none => s!"a{id}:?:?")
          let prev := match op, r with
            | .put _ _ _, .ok => (match s.items.getLast? with | some l => [s!"p{s.tob l}"] | none => ["p-"])
            | _, _ => []
          (.cbelt s', s!"{head} | {showFired s'.fired} | {showNats s'.newReady} | {" ".intercalate (acct ++ prev)}" ++ (if s'.flagged then " FLAGGED" else ""))
        | none => (m, "bad-op")
    | .fleet s =>
      match w with
      | ["stat"] => (m, s!"stat {s.b.avgNum} {s.b.avgDen} {s.b.level} {s.b.now}")
      | ["probe", "can_put"] => (m, s!"probe {s.canPut}")
      | ["probe", "can_get"] => (m, s!"probe {s.canGet}")
      | ["probe", "occ"] => (m, s!"probe {s.b.occupancy}")
      | ["probe", "ready"] => (m, s!"probe {showNats (s.b.ready.map (·.item.id))}")
      | ["probe", "queue"] => (m, s!"probe {s.queue.length} {(s.queue.head?.map (·.time)).getD 0}")
      | _ =>
        match fleetOp w with
        | some op =>
          let (s', r) := s.step op
          let head := if op == .ev then s!"t={s'.now}" else showResB r
          (.fleet s', s!"{head} | {showFired s'.b.fired} | {showNats s'.newReady}" ++ (if s'.b.crashed then " CRASHED" else "") ++ (if s'.flagged then " FLAGGED" else ""))
        | none => (m, "bad-op")
    | .buf s =>
      match w with
      | ["stat"] => (m, s!"stat {s.avgNum} {s.avgDen} {s.level} {s.now}")
      | ["probe", "can_put"] => (m, s!"probe {s.canPut}")
      | ["probe", "can_get"] => (m, s!"probe {s.canGet}")
      | ["probe", "occ"] => (m, s!"probe {s.occupancy}")
      | ["probe", "ready"] => (m, s!"probe {showNats (s.ready.map (·.item.id))}")
      | _ =>
        match bufOp w with
        | some op =>
          let (s', r) := s.step op
          (.buf s', s!"{showResB r} | {showFired s'.fired}" ++ (if s'.crashed then " CRASHED" else ""))
        | none => (m, "bad-op")
    | .pos s =>
      match w with
      | ["stat"] => (m, s!"stat {s.avgNum} {s.avgDen} {s.items.length} {s.now}")
      | _ =>
        match posOp w with
        | some op =>
          let (s', r) := s.step op
          (.pos s', s!"{showRes r} | {showFired s'.fired}")
        | none => (m, "bad-op")

partial def loop (h : IO.FS.Stream) (out : IO.FS.Stream) (m : M) : IO Unit := do
  let line ← h.getLine
  if line.isEmpty then return ()
  let (m', o) := stepLine m line
  if o ≠ "" then out.putStrLn o
  loop h out m'

def main : IO Unit := do
  loop (← IO.getStdin) (← IO.getStdout) .none
