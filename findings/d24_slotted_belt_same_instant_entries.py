"""D24 (C12, C04): the slotted BeltStore's admission test compared `now` only with the entry time of the last item
already ON the belt and ignored granted-but-unused space reservations: two producers asking in the same instant
(two workers of one machine finishing together) were both granted and their items entered 0 apart instead of one
slot delay apart; and, since each trigger serves only the head of the queue, a second waiting request stayed
pending although the store's own test admitted it.  Expected: successive items enter >= one slot delay apart."""
import simpy, sys, builtins
from factorysimpy.edges.slotted_conveyor import ConveyorBelt
from factorysimpy.helper.item import Item
_p = builtins.print
builtins.print = lambda *a, **k: None
env = simpy.Environment()
cb = ConveyorBelt(env, "CB", capacity=4, delay=2.0, accumulating=True)
class N:  id = "n"
cb.src_node = N(); cb.dest_node = N()
entries = []
def producer(name):
    ev = cb.reserve_put(); yield ev
    cb.put(ev, Item(name)); entries.append((name, env.now))
env.process(producer("a")); env.process(producer("b"))
env.run(until=20)
builtins.print = _p
print("entries:", entries)
ok = len(entries) == 2 and abs(entries[1][1] - entries[0][1]) >= 2.0
print("OK" if ok else "DEFECT: two items entered the slotted belt less than one slot delay apart")
sys.exit(0 if ok else 1)
