"""D26 (C13): an item put on a STOPPED non-accumulating belt (its space reservation had been granted before the head
reached the exit) was treated like an item entering a stalled ACCUMULATING belt: handle_new_item_during_interruption
scheduled a delayed interrupt, so the item kept advancing by the number of free slots ahead of it while the belt was
supposed to stand still.  Expected (C13): while the head waits at the exit of a non-accumulating conveyor no item on the
belt advances; on release every item resumes from where it stopped - the late item needs its full travel time after release."""
import simpy, sys, builtins
from factorysimpy.edges.continuous_conveyor import ConveyorBelt
from factorysimpy.helper.item import Item
_p = builtins.print
builtins.print = lambda *a, **k: None
env = simpy.Environment()
cb = ConveyorBelt(env, "CB", conveyor_length=4, speed=1, item_length=1, accumulating=0)
class N:  id = "n"
cb.src_node = N(); cb.dest_node = N()
log = {}
def producer():
    ev = cb.reserve_put(); yield ev
    it = Item("a"); it.length = 1; cb.put(ev, it)
    yield env.timeout(2)
    ev = cb.reserve_put(); yield ev          # granted at t=2, while the belt is moving ...
    yield env.timeout(4)                     # ... used at t=6: a waits at the exit since t=4, the belt is stopped
    it = Item("b"); it.length = 1; cb.put(ev, it); log["b_in"] = env.now
def consumer():
    yield env.timeout(20)                    # release at t=20
    ev = cb.reserve_get(); yield ev; cb.get(ev); log["a_out"] = env.now
    ev = cb.reserve_get(); yield ev; cb.get(ev); log["b_out"] = env.now
env.process(producer()); env.process(consumer())
env.run(until=40)
builtins.print = _p
print(log)
# b entered a stopped belt at t=6 and must not move before the release at t=20: it can be at the exit at t=24 at the earliest
ok = log.get("b_out") == 24
print("OK" if ok else f"DEFECT: b left at t={log.get('b_out')}: it advanced while the non-accumulating belt was stopped")
sys.exit(0 if ok else 1)
