"""D20 (C16, C20): a Combiner whose recipe asks for no ingredient (only the pallet in-edge, or all
quantities 0) crashes with AttributeError in a diagnostic print: `self.item_in_process.id` with
item_in_process = None.  Expected: the pallet is passed on (empty recipe packed exactly)."""
import simpy, sys
from factorysimpy.nodes.source import Source
from factorysimpy.nodes.combiner import Combiner
from factorysimpy.nodes.sink import Sink
from factorysimpy.edges.buffer import Buffer

env = simpy.Environment()
src = Source(env, "S", inter_arrival_time=1, blocking=True, flow_item_type="pallet")
comb = Combiner(env, "C", target_quantity_of_each_item=[1], processing_delay=1, blocking=True)
snk = Sink(env, "K")
b1 = Buffer(env, "B1", capacity=2); b2 = Buffer(env, "B2", capacity=2)
b1.connect(src, comb); b2.connect(comb, snk)
try:
    env.run(until=10)
except AttributeError as ex:
    print("DEFECT: combiner crashed:", ex); sys.exit(1)
print("received", snk.stats["num_item_received"])
sys.exit(0 if snk.stats["num_item_received"] >= 3 else 1)
