"""D23 (C15): a non-blocking FIRST_AVAILABLE Splitter / Combiner pushes units downstream but records nothing in
stats['out_edge_selection'] (same defect as D13 in Machine)."""
import simpy, sys, builtins
from factorysimpy.nodes.source import Source
from factorysimpy.nodes.combiner import Combiner
from factorysimpy.nodes.splitter import Splitter
from factorysimpy.nodes.sink import Sink
from factorysimpy.edges.buffer import Buffer
bad = 0
_p = builtins.print
for cls in (Combiner, Splitter):
    builtins.print = lambda *a, **k: None
    env = simpy.Environment()
    src = Source(env, "S", inter_arrival_time=2, blocking=True, flow_item_type="pallet")
    m = cls(env, "M", processing_delay=1, blocking=False)
    k = Sink(env, "K")
    b1 = Buffer(env, "B1", capacity=2); b2 = Buffer(env, "B2", capacity=2)
    b1.connect(src, m); b2.connect(m, k)
    env.run(until=11)
    builtins.print = _p
    sel = m.stats["out_edge_selection"]; n = k.stats["num_item_received"]
    print(cls.__name__, "received downstream:", n, "out_edge_selection:", sel)
    if len(sel) < n: bad += 1
print("DEFECT" if bad else "OK")
sys.exit(1 if bad else 0)
