"""D22 (C17): Machine.update_final_state_time(T) with T inside the set-up period raises TypeError
(stats['last_state_change_time'] is still None)."""
import simpy, sys, builtins
from factorysimpy.nodes.source import Source
from factorysimpy.nodes.machine import Machine
from factorysimpy.nodes.sink import Sink
from factorysimpy.edges.buffer import Buffer
_p = builtins.print
builtins.print = lambda *a, **k: None
env = simpy.Environment()
src = Source(env, "S", inter_arrival_time=1, blocking=True)
m = Machine(env, "M", node_setup_time=5, processing_delay=1)
k = Sink(env, "K")
b1 = Buffer(env, "B1", capacity=2); b2 = Buffer(env, "B2", capacity=2)
b1.connect(src, m); b2.connect(m, k)
env.run(until=3)
builtins.print = _p
try:
    m.update_final_state_time(3)
except Exception as ex:
    print("DEFECT:", type(ex).__name__, ex); sys.exit(1)
tt = m.stats["total_time_spent_in_states"]
print(tt, m.time_per_work_occupancy)
ok = tt["SETUP_STATE"] == 3 and sum(tt.values()) == 3 and sum(m.time_per_work_occupancy) == 3
sys.exit(0 if ok else 1)
