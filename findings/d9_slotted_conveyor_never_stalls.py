"""D9 (C13): the slotted ConveyorBelt's behaviour() waits on item_arrival_event, which nothing triggers, so the
conveyor never leaves IDLE_STATE and a NON-accumulating slotted conveyor never stops: with nobody taking items at the
exit, the item behind a waiting head keeps advancing and reaches the exit as well.  Expected (C13): while the head
waits unreserved at the exit of a non-accumulating conveyor no item on the belt advances."""
import simpy, sys, builtins
from factorysimpy.edges.slotted_conveyor import ConveyorBelt
from factorysimpy.helper.item import Item
_p = builtins.print
builtins.print = lambda *a, **k: None
env = simpy.Environment()
cb = ConveyorBelt(env, "CB", capacity=3, delay=1.0, accumulating=False)
class N:  id = "n"
cb.src_node = N(); cb.dest_node = N()
def producer():
    for name in ("a", "b"):
        ev = cb.reserve_put(); yield ev
        cb.put(ev, Item(name))
        yield env.timeout(1.0)
env.process(producer())
env.run(until=10)
builtins.print = _p
ready = [i.id for i in cb.belt.ready_items]
print("state:", cb.state, " at the exit:", ready, " still moving:", [i[0].id for i in cb.belt.items])
ok = ready == ["a"]
print("OK" if ok else "DEFECT: item b advanced to the exit while a waited there, unreserved, on a non-accumulating conveyor")
sys.exit(0 if ok else 1)
