"""D33 (C20, fixed by 517455d): the continuous ConveyorBelt accepted a negative speed (the travel delay item_length*capacity/speed is
then negative and every timer is skipped) and a negative belt length together with a negative item length (capacity int(ceil(L)/l) > 0)."""
import simpy, sys, builtins
_p = builtins.print; builtins.print = lambda *a, **k: None
from factorysimpy.edges.continuous_conveyor import ConveyorBelt
bad = []
for (L, v, l) in ((3, -1.0, 1), (3, -1.0, 0.5), (-1, 1.0, -1), (-1, -1.0, -1), (3, 0, 1)):
    try:
        ConveyorBelt(simpy.Environment(), "C", conveyor_length=L, speed=v, item_length=l, accumulating=0)
        bad.append((L, v, l))
    except (ValueError, ZeroDivisionError, OverflowError):
        pass
builtins.print = _p
print("OK: non-positive belt geometry is rejected" if not bad else f"DEFECT (D33): (length, speed, item length) = {bad} were accepted")
sys.exit(1 if bad else 0)
