"""D21 (C17): while a Combiner processes a loaded pallet (worker slot held, processing delay running) no
worker process exists yet, so check_thread_state_and_update_combiner_state() classifies the node as
IDLE_STATE: the whole processing time is charged to IDLE_STATE and PROCESSING_STATE stays 0."""
import simpy, sys, builtins
from factorysimpy.nodes.source import Source
from factorysimpy.nodes.combiner import Combiner
from factorysimpy.nodes.sink import Sink
from factorysimpy.edges.buffer import Buffer
_p = builtins.print
builtins.print = lambda *a, **k: None
env = simpy.Environment()
src = Source(env, "S", inter_arrival_time=4, blocking=True, flow_item_type="pallet")
m = Combiner(env, "M", processing_delay=3, target_quantity_of_each_item=[1])
k = Sink(env, "K")
b1 = Buffer(env, "B1", capacity=2); b2 = Buffer(env, "B2", capacity=2)
b1.connect(src, m); b2.connect(m, k)
env.run(until=20)
m.update_final_state_time(20)
builtins.print = _p
tt = m.stats["total_time_spent_in_states"]
# pallets arrive at 4, 8, 12, 16; each is processed for 3 time units: 12 units of processing before T=20
print(tt)
ok = tt["PROCESSING_STATE"] == 12.0
print("OK" if ok else "DEFECT: processing time charged %s, the combiner processed for 12.0" % tt["PROCESSING_STATE"])
sys.exit(0 if ok else 1)
