"""D28 (C20): BeltStore._do_reserve_put reads item.total_interruption_time / interruption_start_time of the last item on the
belt, but those attributes were first set by the item's move process when it RUNS (one kernel step after the put).  A
producer that asks for the next space right after a put - in the same process step, as Splitter does for the items of a
pallet - crashed with AttributeError.  Expected: the request is simply queued (the spacing test is not yet satisfied)."""
import simpy, sys, builtins
from factorysimpy.edges.continuous_conveyor import ConveyorBelt
from factorysimpy.helper.item import Item
_p = builtins.print
builtins.print = lambda *a, **k: None
env = simpy.Environment()
cb = ConveyorBelt(env, "CB", conveyor_length=3, speed=1, item_length=1, accumulating=1)
class N:  id = "n"
cb.src_node = N(); cb.dest_node = N()
entered, errors = [], []
def producer():
    for k in range(3):
        ev = cb.reserve_put(); yield ev
        it = Item(f"i{k}"); it.length = 1
        cb.put(ev, it); entered.append((it.id, env.now))      # ... and straight on to the next reserve_put
env.process(producer())
try:
    env.run(until=10)
except Exception as ex:
    errors.append(f"{type(ex).__name__}: {ex}")
builtins.print = _p
print("entered:", entered, " errors:", errors)
ok = not errors and [t for _, t in entered] == [0, 1.0, 2.0]
print("OK" if ok else "DEFECT: reserve_put right after put crashed / items did not enter one item length apart")
sys.exit(0 if ok else 1)
