"""D29 (C13, known finding): on an ACCUMULATING continuous conveyor the items behind a waiting head are stopped according
to a slot pattern (_get_belt_pattern: position = ceil(travelled / item_length)).  An item that is not slot-aligned at the
instant of the stall is stopped where it is (its ceil-slot is next to the head), while an item entering during the stall
is allowed to advance by whole slots up to the ceil-slot behind it: the two end up less than one item length apart - they
overlap - and after the release they reach the exit less than item_length/speed apart.
Scenario (item length 1, speed 2: one item length of belt travel takes 0.5; belt length 5): entries at 0, 1.125 and 2.5;
the head waits from 2.5; release at 5.125.  Expected: successive items reach the exit at least 0.5 apart."""
import simpy, sys, builtins
from factorysimpy.edges.continuous_conveyor import ConveyorBelt
from factorysimpy.helper.item import Item
_p = builtins.print
builtins.print = lambda *a, **k: None
env = simpy.Environment()
cb = ConveyorBelt(env, "CB", conveyor_length=5, speed=2, item_length=1, accumulating=1)
class N:  id = "n"
cb.src_node = N(); cb.dest_node = N()
arrivals = {}
def producer():
    for name, t in (("a", 0), ("b", 1.125), ("c", 2.5)):
        if t > env.now: yield env.timeout(t - env.now)
        ev = cb.reserve_put(); yield ev
        it = Item(name); it.length = 1; cb.put(ev, it)
def consumer():
    yield env.timeout(5.125)
    for _ in range(3):
        ev = cb.reserve_get(); yield ev
        it = cb.get(ev)
def watcher():
    while True:
        for it in cb.belt.ready_items:
            arrivals.setdefault(it.id, env.now)
        yield env.timeout(1 / 64)
env.process(producer()); env.process(consumer()); env.process(watcher())
env.run(until=12)
builtins.print = _p
print("reached the exit at:", arrivals)
gap = arrivals.get("c", 99) - arrivals.get("b", 0)
ok = gap >= 0.5 - 1 / 64
print("OK" if ok else f"DEFECT (known, D29): b and c reached the exit {gap} apart: they overlapped on the accumulating belt")
sys.exit(0 if ok else 1)
