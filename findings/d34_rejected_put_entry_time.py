import sys, builtins
_p = builtins.print
builtins.print = lambda *a, **k: None
import simpy
from factorysimpy.edges.slotted_conveyor import ConveyorBelt as SBelt
from factorysimpy.edges.continuous_conveyor import ConveyorBelt as CBelt
from factorysimpy.helper.item import Item

class N:
    def __init__(s, i): s.id = i

def scenario(kind, misuse):
    env = simpy.Environment()
    if kind == "slot": e = SBelt(env, "CB", capacity=4, delay=2.0, accumulating=1)
    else: e = CBelt(env, "CB", conveyor_length=4, speed=0.5, item_length=1, accumulating=1)
    e.src_node = N("s"); e.dest_node = N("d")
    out = {}
    def A():
        t = e.reserve_put(); yield t
        x = Item("X"); x.length = 1
        e.put(t, x); out["put"] = env.now
        yield env.timeout(1.5)
        if misuse:
            try: e.put(t, x); out["second"] = "accepted"
            except RuntimeError: out["second"] = "RuntimeError"
    def B():
        yield env.timeout(0.5)
        t = e.reserve_put(); yield t
        out["B granted"] = env.now
    env.process(A()); env.process(B())
    env.run(until=20)
    return out
bad = 0
for kind in ("slot", "cont"):
    a = scenario(kind, False); b = scenario(kind, True)
    _p(kind, "without the ill-formed call:", a); _p(kind, "with the rejected second put :", b)
    if a["B granted"] != b["B granted"]:
        _p(f"  -> the rejected put changed another process's reservation: granted at {b['B granted']} instead of {a['B granted']}"); bad = 1
sys.exit(bad)
