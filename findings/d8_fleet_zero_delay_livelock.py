"""D8 (C14, C20): Fleet / FleetStore with delay = 0 (accepted: get_delay only requires delay >= 0) never lets the clock
advance: fleet_activation_process yields any_of([timeout(0), activate_fleet]) in a loop, so the kernel
processes events at t = 0 forever and run(until=T) does not return."""
import simpy, sys, builtins
from factorysimpy.base.fleet_store import FleetStore
_p = builtins.print
builtins.print = lambda *a, **k: None
env = simpy.Environment()
fs = FleetStore(env, capacity=2, delay=0, transit_delay=1)
n = 0
while env.peek() == 0 and n < 20000:
    env.step(); n += 1
builtins.print = _p
print("kernel events processed at t=0:", n, " clock:", env.now)
ok = n < 20000
print("OK" if ok else "DEFECT: zero-time livelock")
sys.exit(0 if ok else 1)
