"""D32 (C20, fixed by 18b2332): the slotted ConveyorBelt accepted a negative slot delay and simulated it as zero
(`if self.delay > 0` guards around the travel timers) - "negative delay" is one of the configurations C20 says must be rejected."""
import simpy, sys, builtins
_p = builtins.print; builtins.print = lambda *a, **k: None
from factorysimpy.edges.slotted_conveyor import ConveyorBelt
bad = []
for d in (-1.0, -0.25):
    try:
        ConveyorBelt(simpy.Environment(), "C", capacity=2, delay=d, accumulating=1)
        bad.append(d)
    except ValueError:
        pass
builtins.print = _p
print("OK: negative slot delays are rejected" if not bad else f"DEFECT (D32): negative slot delays {bad} were accepted")
sys.exit(1 if bad else 0)
