"""D14 (C17): Splitter and Combiner never charge the set-up period: stats['last_state_change_time'] starts
as None, so the first update_state() drops the elapsed set-up time; the state totals add up to
T - node_setup_time, and finalising during set-up raises TypeError."""
import simpy, sys, builtins
from factorysimpy.nodes.source import Source
from factorysimpy.nodes.combiner import Combiner
from factorysimpy.nodes.splitter import Splitter
from factorysimpy.nodes.sink import Sink
from factorysimpy.edges.buffer import Buffer
bad = 0
_p = builtins.print
for T in (3, 10):
    for cls in (Combiner, Splitter):
        builtins.print = lambda *a, **k: None
        env = simpy.Environment()
        src = Source(env, "S", inter_arrival_time=1, blocking=True, flow_item_type="pallet")
        m = cls(env, "M", node_setup_time=5, processing_delay=1)
        k = Sink(env, "K")
        b1 = Buffer(env, "B1", capacity=2); b2 = Buffer(env, "B2", capacity=2)
        b1.connect(src, m); b2.connect(m, k)
        env.run(until=T)
        builtins.print = _p
        try:
            m.update_final_state_time(T)
            tt = m.stats["total_time_spent_in_states"]
            ok = sum(tt.values()) == T and tt["SETUP_STATE"] == min(T, 5)
            print(cls.__name__, "T =", T, tt, "OK" if ok else "DEFECT")
            bad += not ok
        except Exception as ex:
            print(cls.__name__, "T =", T, "DEFECT:", type(ex).__name__, ex); bad += 1
sys.exit(1 if bad else 0)
