"""D4 (C14): FleetStore.fleet_activation_process hands the LIVE list self.items to move_to_ready_items, which
pops from it while iterating: every second item of a batch is left behind, and items loaded during a
trip travel with it.  Expected: exactly the items waiting at departure arrive together 2*transit later."""
import simpy, sys, builtins
from factorysimpy.base.fleet_store import FleetStore
_p = builtins.print
builtins.print = lambda *a, **k: None
env = simpy.Environment()
fs = FleetStore(env, capacity=6, delay=10, transit_delay=1)
log = {}
def loader():
    for name in ("a", "b", "c"):
        ev = fs.reserve_put(); yield ev; fs.put(ev, name)
    yield env.timeout(10.5)               # the fleet left at t=10; load one more during the trip
    ev = fs.reserve_put(); yield ev; fs.put(ev, "late")
env.process(loader())
env.run(until=12.5)
builtins.print = _p
print("t=12.5 ready:", fs.ready_items, " still loaded:", fs.items)
ok = fs.ready_items == ["a", "b", "c"] and fs.items == ["late"]
print("OK" if ok else "DEFECT: the batch that left at t=10 was a,b,c")
sys.exit(0 if ok else 1)
