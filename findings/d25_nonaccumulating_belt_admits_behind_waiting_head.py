"""D25 (C13): BeltStore._do_reserve_put has two branches; the one taken when no item is MOVING only tested the
capacity.  On a non-accumulating belt whose only item waits at the exit (nobody has reserved it: the belt is stopped)
a new space reservation was therefore granted and the new item entered the stopped belt.
Expected (C13): while the head item waits at the exit of a non-accumulating conveyor no new item is admitted."""
import simpy, sys, builtins
from factorysimpy.edges.continuous_conveyor import ConveyorBelt
from factorysimpy.helper.item import Item
_p = builtins.print
builtins.print = lambda *a, **k: None
env = simpy.Environment()
cb = ConveyorBelt(env, "CB", conveyor_length=4, speed=1, item_length=1, accumulating=0)
class N:  id = "n"
cb.src_node = N(); cb.dest_node = N()
granted = []
def producer():
    ev = cb.reserve_put(); yield ev
    it = Item("a"); it.length = 1; cb.put(ev, it)
    yield env.timeout(6)                       # a reached the exit at t=4; nobody takes it: the belt is stopped
    ev = cb.reserve_put()
    yield ev | env.timeout(5)
    granted.append((ev.triggered, env.now))
env.process(producer())
env.run(until=20)
builtins.print = _p
print("state:", cb.state, " at the exit:", [i.id for i in cb.belt.ready_items], " second reservation granted:", granted)
ok = granted == [(False, 11)]
print("OK" if ok else "DEFECT: a stopped non-accumulating belt granted a space reservation")
sys.exit(0 if ok else 1)
