"""D10 (C20, C03): the continuous ConveyorBelt wakes its state machine with one-shot events (item_arrival_event,
put_events_available, get_events_available) and called succeed() on them unconditionally.  The events stay triggered
until the state machine has handled and re-armed them; a put (get) that comes before that - or while the state machine
is not waiting on item_arrival_event at all - raised RuntimeError('... has already been triggered') in the caller,
AFTER the item had been placed on (taken off) the belt: the producer (consumer) process crashed.
Scenario: one producer, one consumer, non-accumulating belt; no two calls in the same instant."""
import simpy, sys, builtins
from factorysimpy.edges.continuous_conveyor import ConveyorBelt
from factorysimpy.helper.item import Item
_p = builtins.print
builtins.print = lambda *a, **k: None
env = simpy.Environment()
cb = ConveyorBelt(env, "CB", conveyor_length=2, speed=2, item_length=0.5, accumulating=0)
class N:  id = "n"
cb.src_node = N(); cb.dest_node = N()
put_at, got_at, errors = [], [], []
def producer():
    for k, t in enumerate([3.5, 4.5, 4.5, 12.75, 13.75]):
        if t > env.now: yield env.timeout(t - env.now)
        ev = cb.reserve_put(); yield ev
        it = Item(f"i{k}"); it.length = 0.5
        try: cb.put(ev, it); put_at.append((it.id, env.now))
        except Exception as ex: errors.append(f"put at t={env.now}: {type(ex).__name__}: {ex}"); return
def consumer():
    for t in [9, 9.5, 10.5, 16, 17]:
        if t > env.now: yield env.timeout(t - env.now)
        ev = cb.reserve_get(); yield ev
        try: got_at.append((cb.get(ev).id, env.now))
        except Exception as ex: errors.append(f"get at t={env.now}: {type(ex).__name__}: {ex}"); return
env.process(producer()); env.process(consumer())
try:
    env.run(until=30)
except Exception as ex:
    errors.append(f"escaped the kernel: {type(ex).__name__}: {ex}")
builtins.print = _p
print("puts:", put_at); print("gets:", got_at); print("errors:", errors)
ok = not errors and len(put_at) == 5 and len(got_at) == 5
print("OK" if ok else "DEFECT: a put/get raised because a one-shot wake-up event was triggered a second time")
sys.exit(0 if ok else 1)
