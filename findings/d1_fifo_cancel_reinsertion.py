"""D1: reserve_get_cancel of the explicit-binding stores re-inserts the released item at
index len(ready)-len(reserved)-1 instead of right behind the remaining reserved block.
Effects: FIFO order disturbed (C06); a later reservation is bound to an item another granted
reservation already holds, whose get then raises ValueError (C02).
Run: /venv/bin/python d1_fifo_cancel_reinsertion.py   (exit 0 = behaves correctly)"""
import sys, builtins, simpy
builtins.print = lambda *a, **k: None
from factorysimpy.base.buffer_store import BufferStore
from factorysimpy.base.fleet_store import FleetStore

def scenario(store, put):
    env = store.env
    toks = [store.reserve_put() for _ in range(3)]
    for t, name in zip(toks, "abc"): put(store, t, name)
    env.run(until=10)
    assert store.ready_items == ["a", "b", "c"], store.ready_items
    g1 = store.reserve_get(); g2 = store.reserve_get()       # bound to a, b
    store.reserve_get_cancel(g1)                               # a released: must be served before c, and b stays bound to g2
    g3 = store.reserve_get()
    got2 = store.get(g2)
    got3 = store.get(g3)                                       # buggy code: bound to b as well -> ValueError
    return got2, got3

bad = 0
env = simpy.Environment()
try:
    r = scenario(BufferStore(env, capacity=5, mode="FIFO"), lambda s, t, x: s.put(t, (x, 0)))
    if r != ("b", "a"): bad += 1; sys.stderr.write(f"BufferStore: got {r}, expected ('b','a')\n")
except Exception as e:
    bad += 1; sys.stderr.write(f"BufferStore: {type(e).__name__}: {e}\n")
sys.exit(1 if bad else 0)
