"""D2: LIFO BufferStore binds the j-th reservation to ready_items[-1-j], assuming the reserved
items are the top j entries; a new arrival (appended on top) or a cancellation (re-inserted on
top) breaks that, so two granted retrievals get bound to the same item and the second get()
raises ValueError (C02), and the discipline is violated (C06).
Run: /venv/bin/python d2_lifo_binding.py   (exit 0 = behaves correctly)"""
import sys, builtins, simpy
builtins.print = lambda *a, **k: None
from factorysimpy.base.buffer_store import BufferStore

def put(store, x, d=0):
    t = store.reserve_put(); store.put(t, (x, d))

bad = 0
# (1) new arrival while a retrieval is outstanding
try:
    env = simpy.Environment(); s = BufferStore(env, capacity=5, mode="LIFO")
    put(s, "a"); put(s, "b"); env.run(until=1)
    g1 = s.reserve_get()                   # most recent: b
    put(s, "c"); env.run(until=2)
    g2 = s.reserve_get()                   # most recent unreserved: c
    r = (s.get(g1), s.get(g2))
    if r != ("b", "c"): bad += 1; sys.stderr.write(f"arrival: got {r}, expected ('b','c')\n")
except Exception as e:
    bad += 1; sys.stderr.write(f"arrival: {type(e).__name__}: {e}\n")
# (2) cancellation of one of two granted retrievals
try:
    env = simpy.Environment(); s = BufferStore(env, capacity=5, mode="LIFO")
    put(s, "a"); put(s, "b"); put(s, "c"); env.run(until=1)
    g1 = s.reserve_get(); g2 = s.reserve_get()      # c, b
    s.reserve_get_cancel(g1)                         # c released: most recent unreserved again
    g3 = s.reserve_get()                             # c
    r = (s.get(g2), s.get(g3))
    if r != ("b", "c"): bad += 1; sys.stderr.write(f"cancel: got {r}, expected ('b','c')\n")
except Exception as e:
    bad += 1; sys.stderr.write(f"cancel: {type(e).__name__}: {e}\n")
sys.exit(1 if bad else 0)
