"""D13: a non-blocking Machine with out_edge_selection="FIRST_AVAILABLE" pushes items without
recording the chosen edge in stats["out_edge_selection"]: the selection history does not equal the
routing that happened (C15).
Run: /venv/bin/python d13_outsel_not_recorded.py   (exit 0 = behaves correctly)"""
import sys, builtins, simpy
builtins.print = lambda *a, **k: None
from factorysimpy.nodes.source import Source
from factorysimpy.nodes.sink import Sink
from factorysimpy.nodes.machine import Machine
from factorysimpy.edges.buffer import Buffer

env = simpy.Environment()
src = Source(env, "S", inter_arrival_time=1, blocking=True, out_edge_selection="FIRST_AVAILABLE")
m = Machine(env, "M", processing_delay=0.5, work_capacity=1, blocking=False, out_edge_selection="FIRST_AVAILABLE")
k1 = Sink(env, "K1"); k2 = Sink(env, "K2")
b0 = Buffer(env, "B0", capacity=2); b1 = Buffer(env, "B1", capacity=1); b2 = Buffer(env, "B2", capacity=1)
b0.connect(src, m); b1.connect(m, k1); b2.connect(m, k2)
env.run(until=10)
pushed = m.stats["num_item_processed"]; rec = m.stats["out_edge_selection"]
if pushed < 5 or abs(len(rec) - pushed) > 1:
    sys.stderr.write(f"{pushed} items pushed but out_edge_selection has {len(rec)} entries: {rec}\n"); sys.exit(1)
sys.exit(0)
