"""D31 (C12, known finding): the continuous conveyor's travel time is item_length * int(conveyor_length / item_length) / speed
(ConveyorBelt.put: `delay = self.length * self.capacity / self.speed`), not conveyor_length / speed.  When the item length does
not divide the belt length the belt is effectively shortened to a whole number of item lengths and every item is offered to the
destination EARLIER than the full belt travel time after it entered.
Scenario: conveyor_length 3, item_length 0.8, speed 3 -> capacity 3; an item that enters at t = 0.25 must not be offered before
0.25 + 3/3 = 1.25; it is offered at 0.25 + 0.8*3/3 = 1.05."""
import simpy, sys, builtins
from factorysimpy.edges.continuous_conveyor import ConveyorBelt
from factorysimpy.helper.item import Item
_p = builtins.print
builtins.print = lambda *a, **k: None
env = simpy.Environment()
L, l, v = 3, 0.8, 3.0
cb = ConveyorBelt(env, "CB", conveyor_length=L, speed=v, item_length=l, accumulating=0)
class N:  id = "n"
cb.src_node = N(); cb.dest_node = N()
seen = {}
def producer():
    yield env.timeout(0.25)
    ev = cb.reserve_put(); yield ev
    it = Item("a"); it.length = l; cb.put(ev, it); seen["in"] = env.now
def consumer():
    ev = cb.reserve_get(); yield ev
    cb.get(ev); seen["out"] = env.now
env.process(producer()); env.process(consumer())
env.run(until=10)
builtins.print = _p
print(f"entered at {seen.get('in')}, offered / taken at {seen.get('out')}; belt travel time conveyor_length/speed = {L / v}")
ok = seen.get("out", 0) - seen.get("in", 0) >= L / v - 1e-9
print("OK" if ok else f"DEFECT (known, D31): the item was offered {seen['out'] - seen['in']} after it entered, the belt travel time is {L / v} "
                      f"(the code uses item_length * capacity / speed = {l * int(L / l) / v})")
sys.exit(0 if ok else 1)
