"""D5: non-blocking Source with out_edge_selection="FIRST_AVAILABLE": the variable tested after
the can_put scan (`out_edge_to_put`) is never reset (the code initialises `out_edge_index_to_put`
instead), so when no out-edge has room the source pushes to the edge that had room LAST time and
waits there — a non-blocking source must drop the item and count it (C09); if the very first item
found no room the same line raises UnboundLocalError (C20).
Run: /venv/bin/python d5_source_nonblocking_fa.py   (exit 0 = behaves correctly)"""
import sys, builtins, simpy
builtins.print = lambda *a, **k: None
from factorysimpy.nodes.source import Source
from factorysimpy.nodes.sink import Sink
from factorysimpy.nodes.machine import Machine
from factorysimpy.edges.buffer import Buffer

env = simpy.Environment()
src = Source(env, "S", inter_arrival_time=1, blocking=False, out_edge_selection="FIRST_AVAILABLE")
m = Machine(env, "M", processing_delay=10, work_capacity=1, blocking=True)
snk = Sink(env, "K")
b1 = Buffer(env, "B1", capacity=1, delay=0); b2 = Buffer(env, "B2", capacity=1, delay=0)
b1.connect(src, m); b2.connect(m, snk)
env.run(until=30)
gen, disc = src.stats["num_item_generated"], src.stats["num_item_discarded"]
# the machine takes one item every 10 time units; a non-blocking source keeps generating one per time unit
# and drops what does not fit: ~29 generated, most of them discarded.
if gen < 25 or disc < 20:
    sys.stderr.write(f"non-blocking source generated {gen}, discarded {disc}: it waited for room instead of dropping\n")
    sys.exit(1)
sys.exit(0)
