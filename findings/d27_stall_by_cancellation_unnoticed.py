"""D27 (C13, known finding): the continuous conveyor's state machine looks at "head item waiting and unreserved" only when
an item reaches the exit, on put and on get.  If the head item's granted retrieval is CANCELLED (a FIRST_AVAILABLE consumer
that chose another in-edge does exactly that), the head waits unreserved but the non-accumulating belt keeps running: the
next item advances to the exit as well.  Expected (C13): while the head waits at the exit of a non-accumulating conveyor
no item on the belt advances."""
import simpy, sys, builtins
from factorysimpy.edges.continuous_conveyor import ConveyorBelt
from factorysimpy.helper.item import Item
_p = builtins.print
builtins.print = lambda *a, **k: None
env = simpy.Environment()
cb = ConveyorBelt(env, "CB", conveyor_length=2, speed=1, item_length=1, accumulating=0)
class N:  id = "n"
cb.src_node = N(); cb.dest_node = N()
def producer():
    for name in ("a", "b"):
        ev = cb.reserve_put(); yield ev
        it = Item(name); it.length = 1; cb.put(ev, it)
        yield env.timeout(1.5)
def consumer():
    ev = cb.reserve_get(); yield ev          # granted when a reaches the exit (t=2): the belt keeps moving
    yield env.timeout(0.5)
    cb.belt.reserve_get_cancel(ev)           # t=2.5: the consumer changes its mind; a now waits unreserved
env.process(producer()); env.process(consumer())
env.run(until=10)
builtins.print = _p
ready = [i.id for i in cb.belt.ready_items]
print("state:", cb.state, " at the exit:", ready, " moving:", [i[0].id for i in cb.belt.items])
ok = ready == ["a"]
print("OK" if ok else "DEFECT (known, D27): b advanced to the exit while a waited there unreserved on a non-accumulating conveyor")
sys.exit(0 if ok else 1)
